"""Random SOURCE TREES of the core language, a printer that follows the published grammar's precedence levels (roll.peg)
with arbitrary legal whitespace / redundant parentheses, and the s-expression wire format of the Lean reference evaluator.

A tree is a tuple whose first element names the node.  The printer is the independent statement of the grammar's precedence:
parentheses are inserted only where the grammar's level structure requires them, so an implementation whose jump offsets or
operator nesting disagree with the grammar computes a different value from the reference evaluator, which walks the tree.

levels (higher binds tighter), exactly the rule chain exprTernary > exprLogicOr > … > exprDice of roll.peg:
  1 ternary   2 ||   3 &&   4 |   5 &   6 comparison   7 + -   8 * / %   9 ??   10 **   11 unary -/+   12 primary/postfix
  quirks that are part of the grammar: the first operand of * / % may be a ?? chain but later ones may not; the operands of a
  ternary are || chains (a nested ternary needs parentheses); unary -/+ applies to a primary only.
"""
import struct

BIN_LEVEL = {"or": 2, "and": 3, "|": 4, "&": 5, "comp.lt": 6, "comp.le": 6, "comp.eq": 6, "comp.ne": 6, "comp.ge": 6, "comp.gt": 6,
             "add": 7, "sub": 7, "mul": 8, "div": 8, "mod": 8, "nullCoalescing": 9, "pow": 10}
BIN_TEXT = {"or": "||", "and": "&&", "|": "|", "&": "&", "comp.lt": "<", "comp.le": "<=", "comp.eq": "==", "comp.ne": "!=", "comp.ge": ">=",
            "comp.gt": ">", "add": "+", "sub": "-", "mul": "*", "div": "/", "mod": "%", "nullCoalescing": "??", "pow": "**"}


# every accepted spelling of an operator token (add / minus / multiply / divide have full-width aliases, ** may be written ^)
BIN_ALIASES = {"add": ["+", "+", "+", "＋"], "sub": ["-", "-", "-", "－"], "mul": ["*", "*", "*", "＊"], "div": ["/", "/", "/", "／"], "pow": ["**", "**", "^"]}


def hx(s):
    b = s.encode("utf-8")
    return b.hex() if b else "-"


def level(n):
    k = n[0]
    if k == "bin":
        return BIN_LEVEL[n[1]]
    if k in ("and", "or"):
        return BIN_LEVEL[k]
    if k in ("tern", "ternm"):
        return 1
    if k in ("neg", "pos"):
        return 11
    if k in ("asg", "iset", "aset", "sset", "slc"):
        return 0
    return 12


class Printer:
    def __init__(self, r, spacing=True, redundant=0.08):
        self.r = r
        self.spacing = spacing
        self.redundant = redundant

    def sp(self):
        return self.r.choice(["", "", " ", " ", "  "]) if self.spacing else " "

    def p(self, n, minlevel):
        s = self.raw(n)
        if level(n) < minlevel or (self.r.random() < self.redundant and n[0] not in ("str", "tmpl") and minlevel > 0):
            return "(" + self.sp() + s + ")"      # no blank before ")": `sub <- '(' sp exprRoot ')' sp`
        return s

    def opt(self, n):
        return "" if n is None else self.p(n, 0)

    def elem(self, n, last):
        """element of an array literal / argument list / dict value.  `c ? v, c ? w` chains are greedy over the following
        commas (`[c ? v, d ? a : b]` reads `d ? a` as a continuation and then fails on ':'): a chain that is not the last
        element is parenthesised"""
        if n[0] == "ternm" and not last:
            return "(" + self.raw(n) + ")"
        return self.p(n, 0)

    def elems(self, l):
        return ("," + self.sp()).join(self.elem(e, i == len(l) - 1) for i, e in enumerate(l))

    def head(self, n):
        """the base of a postfix chain (call / index / attribute / assignment target): a call can only follow an identifier or
        another postfix, never a parenthesised expression, so no redundant parentheses here"""
        if n[0] in ("var", "attr", "idx", "call", "arr", "dict", "range"):
            return self.raw(n)
        # string / template literals take no postfix: they must be parenthesised; so must everything below primary level
        s = self.raw(n)
        return "(" + self.sp() + s + ")"

    def strlit(self, s):
        return "'" + s.replace("\\", "\\\\").replace("'", "\\'").replace("\n", "\\n") + "'"

    def raw(self, n):
        k = n[0]
        r = self.r
        if k == "i":
            if n[1] in (0, 1) and r.random() < 0.12:
                return "true" if n[1] == 1 else "false"          # the two keyword spellings of 1 and 0
            if n[1] >= 0 and r.random() < 0.06:
                return "0" * r.randint(1, 2) + str(n[1])          # number <- [0-9]+ : leading zeros are legal, the value is decimal
            return str(n[1])
        if k == "f":
            t = repr(n[1])
            if t.startswith("0.") and r.random() < 0.3:
                return t[1:]                                      # `.5`: float <- [0-9]* '.' [0-9]+
            return t
        if k == "s":
            return self.strlit(n[1])
        if k == "n":
            return "null"
        if k == "arr":
            return "[" + self.sp() + self.elems(n[1]) + "]"
        if k == "dict":
            return "{" + self.sp() + ("," + self.sp()).join(self.p(a, 1) + self.sp() + ":" + self.sp() + self.elem(b, i == len(n[1]) - 1) for i, (a, b) in enumerate(n[1])) + "}"
        if k == "range":
            return "[" + self.p(n[1], 1) + ".." + self.p(n[2], 1) + "]"
        if k == "var":
            return n[1]
        if k == "asg":
            return n[1] + self.sp() + "=" + self.sp() + self.p(n[2], 0)
        if k == "neg":
            return self.r.choice(BIN_ALIASES["sub"]) + self.p(n[1], 12)
        if k == "pos":
            return self.r.choice(BIN_ALIASES["add"]) + self.p(n[1], 12)
        if k in ("bin", "and", "or"):
            op = n[1] if k == "bin" else k
            a, b = (n[2], n[3]) if k == "bin" else (n[1], n[2])
            L = BIN_LEVEL[op]
            if L == 8:
                left = self.p(a, 8 if (a[0] == "bin" and BIN_LEVEL[a[1]] == 8) else 9)
                right = self.p(b, 10)
            else:
                left = self.p(a, L)
                right = self.p(b, L + 1)
            t = self.r.choice(BIN_ALIASES[op]) if op in BIN_ALIASES else BIN_TEXT[op]
            # "a - -b" / "a + +b" need the blank; "**" followed by unary minus is fine
            gap2 = self.sp()
            if right[:1] in "+-＋－" and t[-1] in "+-＋－":
                gap2 = " "
            return left + self.sp() + t + gap2 + right
        if k == "tern":
            # identifiers may contain ':' — a blank is needed between a name and the ternary's ':'
            return self.p(n[1], 2) + self.sp() + "?" + self.sp() + self.p(n[2], 2) + " :" + self.sp() + self.p(n[3], 2)
        if k == "ternm":
            return ("," + self.sp()).join(self.p(c, 2) + self.sp() + "?" + self.sp() + self.p(v, 2) for c, v in n[1])
        if k == "idx":
            return self.head(n[1]) + "[" + self.sp() + self.p(n[2], 0) + "]"
        if k == "slc":
            # a slice suffix follows a whole ternary-level expression that must not start with "(" (nestedBoost would take the
            # parenthesised part alone): the generator only slices variables, array literals and ranges
            # the step part may be written as an empty `:` (a non-empty step is a run-time error: not generated here)
            return self.raw(n[1]) + "[" + self.opt(n[2]) + ":" + self.opt(n[3]) + (":" + self.sp() if r.random() < 0.15 else "") + "]"
        if k == "attr":
            return self.head(n[1]) + "." + n[2]
        if k == "call":
            # postfix spelling of kh / kl on an array literal: `[3,1,2]kh2`, `[3,1,2]kl` (array_call)
            if n[1][0] == "attr" and n[1][2] in ("kh", "kl") and n[1][1][0] in ("arr", "range") and len(n[2]) <= 1 and \
                    all(a[0] == "i" and a[1] >= 0 for a in n[2]) and r.random() < 0.5:
                return self.raw(n[1][1]) + n[1][2] + "".join(str(a[1]) for a in n[2])
            return self.head(n[1]) + "(" + self.sp() + self.elems(n[2]) + ")"
        if k == "iset":
            return self.head(n[1]) + "[" + self.sp() + self.p(n[2], 0) + "]" + self.sp() + "=" + self.sp() + self.p(n[3], 0)
        if k == "aset":
            return n[1] + "." + n[2] + self.sp() + "=" + self.sp() + self.p(n[3], 0)
        if k == "sset":
            return self.head(n[1]) + "[" + self.opt(n[2]) + ":" + self.opt(n[3]) + "]" + self.sp() + "=" + self.sp() + self.p(n[4], 0)
        if k == "tmpl":
            out = "`"
            for kind, v in n[1]:
                if kind == "t":
                    out += v
                else:
                    body = self.stmts(v[1]) if v[0] == "seq" else self.p(v, 0)
                    out += ("{%" + self.sp() + body + self.sp() + "%}") if (v[0] == "seq" or r.random() < 0.3) else ("{" + self.sp() + body + self.sp() + "}")
            return out + "`"
        if k == "dice":
            _, times, sides, keep, kk, mn, mx = n
            s = ""
            if times is not None:
                s += str(times[1]) if times[0] == "i" else "(" + self.p(times, 0) + ")"
            s += "d"
            if sides is not None:
                s += str(sides[1]) if sides[0] == "i" else "(" + self.p(sides, 0) + ")"
            if keep:
                s += {1: "kl", 2: "kh", 3: "dl", 4: "dh"}[keep]
                if kk is not None:
                    s += str(kk[1]) if kk[0] == "i" else "(" + self.p(kk, 0) + ")"
            if mn is not None:
                s += "min" + (str(mn[1]) if mn[0] == "i" else "(" + self.p(mn, 0) + ")")
            if mx is not None:
                s += "max" + (str(mx[1]) if mx[0] == "i" else "(" + self.p(mx, 0) + ")")
            return s
        if k == "seq":
            return self.stmts(n[1])
        if k == "if":
            s = "if " + self.p(n[1], 0) + self.sp() + "{" + self.sp() + self.raw(n[2]) + self.sp() + "}"
            if n[3] is not None:
                if n[3][0] == "if" and r.random() < 0.7:
                    s += self.sp() + "else " + self.raw(n[3])
                else:
                    s += self.sp() + "else" + self.sp() + "{" + self.sp() + self.raw(n[3]) + self.sp() + "}"
            return s
        if k == "while":
            return "while " + self.p(n[1], 0) + self.sp() + "{" + self.sp() + self.raw(n[2]) + self.sp() + "}"
        if k == "brk":
            return "break"
        if k == "cont":
            return "continue"
        if k == "func":
            return "func " + n[1] + "(" + ("," + self.sp()).join(n[2]) + ")" + self.sp() + "{" + self.sp() + self.raw(n[4]) + self.sp() + "}"
        if k == "ret":
            return "return" if n[1] is None else "return " + self.p(n[1], 0)
        if k == "comp":
            return "&" + n[1] + self.sp() + "=" + self.sp() + self.p(n[3], 0)
        raise ValueError(k)

    def stmts(self, ss):
        out = ""
        for i, s in enumerate(ss):
            t = self.raw(s)
            if i:
                # a newline separates statements only after tokens that do not swallow it; ';' always does.  After a block
                # statement (return / if / while / func) the grammar allows no blank BEFORE the ';'
                prev = ss[i - 1][0]
                seps = [";", "; ", ";\n", ";\n  "] + ([" ;  "] if prev not in ("ret", "if", "while", "func", "seq") else [])
                # a line break alone separates statements too — LF or CR LF, also behind a trailing comment — whatever token the statement
                # before it ends in (a literal, a closing bracket and a ternary's branches take the blanks behind them, the line feed
                # included: the separator is still there).  Not before a statement that would read as the continuation of the expression
                # (a bracket, a sign, a dice letter)
                if s[0] in ("asg", "i", "var") and prev not in ("seq", "ret") and t[:1] not in "dDkKqQaAcCbBpPfF([-+" and out[-1:] not in ("", "\n"):
                    seps += ["\n", "\r\n", " \r\n  ", " // note\n", "  //x\r\n "]
                out += self.r.choice(seps)
            out += t
        return out


class Sexp:
    """wire format; function / computed bodies go to a table, referenced by id"""

    def __init__(self):
        self.tbl = []

    def opt(self, n):
        return "_" if n is None else self.e(n)

    def e(self, n):
        k = n[0]
        if k == "i":
            return f"( i {n[1]} )"
        if k == "f":
            return f"( f {struct.unpack('>Q', struct.pack('>d', n[1]))[0]:x} )"
        if k == "s":
            return f"( s {hx(n[1])} )"
        if k == "n":
            return "n"
        if k == "arr":
            return "( arr " + " ".join(self.e(x) for x in n[1]) + " )"
        if k == "dict":
            return "( dict " + " ".join(f"( {self.e(a)} {self.e(b)} )" for a, b in n[1]) + " )"
        if k == "range":
            return f"( range {self.e(n[1])} {self.e(n[2])} )"
        if k == "var":
            return f"( var {hx(n[1])} )"
        if k == "asg":
            return f"( asg {hx(n[1])} {self.e(n[2])} )"
        if k in ("neg", "pos"):
            return f"( {k} {self.e(n[1])} )"
        if k == "bin":
            return f"( bin {n[1]} {self.e(n[2])} {self.e(n[3])} )"
        if k in ("and", "or"):
            return f"( {k} {self.e(n[1])} {self.e(n[2])} )"
        if k == "tern":
            return f"( tern {self.e(n[1])} {self.e(n[2])} {self.e(n[3])} )"
        if k == "ternm":
            return "( ternm " + " ".join(f"( {self.e(c)} {self.e(v)} )" for c, v in n[1]) + " )"
        if k == "idx":
            return f"( idx {self.e(n[1])} {self.e(n[2])} )"
        if k == "slc":
            return f"( slc {self.e(n[1])} {self.opt(n[2])} {self.opt(n[3])} )"
        if k == "attr":
            return f"( attr {self.e(n[1])} {hx(n[2])} )"
        if k == "call":
            return "( call " + self.e(n[1]) + " " + " ".join(self.e(a) for a in n[2]) + " )"
        if k == "iset":
            return f"( iset {self.e(n[1])} {self.e(n[2])} {self.e(n[3])} )"
        if k == "aset":
            return f"( aset {hx(n[1])} {hx(n[2])} {self.e(n[3])} )"
        if k == "sset":
            return f"( sset {self.e(n[1])} {self.opt(n[2])} {self.opt(n[3])} {self.e(n[4])} )"
        if k == "tmpl":
            return "( tmpl " + " ".join((f"( t {hx(v)} )" if kind == "t" else f"( h {self.e(v)} )") for kind, v in n[1]) + " )"
        if k == "dice":
            return f"( dice {self.opt(n[1])} {self.opt(n[2])} {n[3]} {self.opt(n[4])} {self.opt(n[5])} {self.opt(n[6])} )"
        if k == "seq":
            return "( seq " + " ".join(self.e(x) for x in n[1]) + " )"
        if k == "if":
            return f"( if {self.e(n[1])} {self.e(n[2])} {self.opt(n[3])} )"
        if k == "while":
            return f"( while {self.e(n[1])} {self.e(n[2])} )"
        if k in ("brk", "cont"):
            return k
        if k == "func":
            body = self.e(n[4])
            self.tbl.append(body)
            return f"( func {hx(n[1])} ( " + " ".join(hx(p) for p in n[2]) + f" ) {len(self.tbl) - 1} )"
        if k == "ret":
            return f"( ret {self.opt(n[1])} )"
        if k == "comp":
            body = self.e(n[3])
            self.tbl.append(body)
            return f"( comp {hx(n[1])} {len(self.tbl) - 1} )"
        raise ValueError(k)

    def line(self, cfg, progs):
        ps = [self.e(p) for p in progs]
        return f"refeval {cfg} ( tbl " + " ".join(self.tbl) + " ) ( progs " + " ".join(ps) + " )"


class AstGen:
    """type-directed trees; `ill` = probability of a deliberately ill-typed operand (both sides must then report the same error)"""

    def __init__(self, r, dice=False, ill=0.05, max_depth=3):
        self.r = r
        self.dice = dice
        self.ill = ill
        self.max_depth = max_depth
        self.vars = {}     # name -> kind ('int','str','arr','dict','flt')
        self.funcs = {}    # name -> arity
        self.comps = []    # names of computed ints
        self.n = 0
        self.in_loop = 0
        self.in_func = 0

    def fresh(self, p):
        self.n += 1
        return f"{p}{self.n}"

    def pick(self, kind):
        c = [n for n, k in self.vars.items() if k == kind]
        return self.r.choice(c) if c else None

    def lit_int(self):
        r = self.r
        return ("i", r.choice([0, 1, 2, 3, 5, 7, 10, 42, 100, 511, 9223372036854775807]) if r.random() < 0.12 else r.randint(0, 12))

    def e(self, kind, d=0):
        if d > 0 and self.r.random() < self.ill:
            kind = self.r.choice(["int", "str", "arr", "dict", "null", "flt"])
        return getattr(self, "e_" + kind)(d)

    def e_null(self, d):
        return ("n",)

    def e_flt(self, d):
        r = self.r
        if d >= self.max_depth or r.random() < 0.5:
            return ("f", r.choice([0.5, 1.5, 2.25, 3.0, 0.125, 10.75]))
        op = r.choice(["add", "sub", "mul"])
        return ("bin", op, self.e_flt(d + 1), r.choice([self.e_flt, self.e_int])(d + 1))

    def e_int(self, d):
        r = self.r
        k = r.random()
        if d >= self.max_depth or k < 0.22:
            return self.lit_int()
        if k < 0.34:
            v = self.pick("int")
            if v:
                return ("var", v)
            return self.lit_int()
        if k < 0.56:
            op = r.choice(["add", "sub", "mul", "add", "sub", "mul", "div", "mod", "pow", "nullCoalescing", "&", "|"])
            a, b = self.e_int(d + 1), self.e_int(d + 1)
            if op in ("div", "mod") and r.random() < 0.85:
                b = ("i", r.randint(1, 9))
            if op == "pow":
                b = ("i", r.randint(0, 3))
            if op == "nullCoalescing" and r.random() < 0.5:
                a = ("n",)
            return ("bin", op, a, b)
        if k < 0.60:
            return ("neg", self.e_int(d + 1)) if r.random() < 0.8 else ("pos", self.e_int(d + 1))
        if k < 0.67:
            return ("tern", self.e_bool(d + 1), self.e_int(d + 1), self.e_int(d + 1))
        if k < 0.70:
            return ("ternm", [(self.e_bool(d + 1), self.e_int(d + 1)) for _ in range(r.randint(1, 3))])
        if k < 0.76:
            return self.e_bool(d + 1)
        if k < 0.80 and self.dice:
            return self.dice_term(d)
        if k < 0.84:
            a = self.pick("arr")
            if a:
                return ("idx", ("var", a), ("i", r.choice([0, 1, -1 % 3, 2, 7])))
        if k < 0.88 and self.funcs:
            fn = r.choice(list(self.funcs))
            return ("call", ("var", fn), [self.e_int(d + 1) for _ in range(self.funcs[fn])])
        if k < 0.91 and self.comps:
            return ("var", r.choice(self.comps))
        if k < 0.925:
            # a bound method applied while another bound method of the same kind is pending
            a, b = self.pick("arr"), self.pick("arr")
            if a and b:
                return ("call", ("attr", ("call", ("attr", ("var", a), "push"), [("call", ("attr", ("var", b), r.choice(["len", "sum"])), [])]), "len"), [])
        if k < 0.93 and self.vars:
            m = self.pick("meth")
            if m:
                return ("call", ("var", m), [])
        if k < 0.94:
            if r.random() < 0.4:
                return ("call", ("attr", self.e_arr(d + 1), r.choice(["kh", "kl"])), [] if r.random() < 0.4 else [("i", r.randint(0, 4))])
            return ("call", ("attr", self.e_arr(d + 1), r.choice(["len", "sum"])), [])
        if k < 0.97:
            dd = self.pick("dict")
            if dd:
                return ("attr", ("var", dd), r.choice(["k", "m", "zz"])) if r.random() < 0.5 else ("idx", ("var", dd), ("s", r.choice(["k", "m", "zz"])))
        if r.random() < 0.5:
            # an element / attribute / slice assignment standing where a value is expected: it yields the value assigned
            dd, a = self.pick("dict"), self.pick("arr")
            if dd and r.random() < 0.5:
                return ("aset", dd, r.choice(["k", "m", "w"]), self.e_int(d + 1)) if r.random() < 0.5 else \
                       ("iset", ("var", dd), ("s", r.choice(["k", "w"])), self.e_int(d + 1))
            if a:
                return ("iset", ("var", a), ("i", r.choice([0, 0, 1, 2, 9])), self.e_int(d + 1))
        v = self.fresh("x")
        self.vars[v] = "int"
        return ("asg", v, self.e_int(d + 1))

    def dice_term(self, d):
        r = self.r
        times = None if r.random() < 0.3 else (("i", r.randint(1, 6)) if r.random() < 0.8 else self.e_int(d + 1))
        sides = ("i", r.choice([4, 6, 8, 20, 100])) if r.random() < 0.85 else self.e_int(d + 1)
        keep = r.choice([0, 0, 1, 2, 3, 4])
        kk = None if (keep == 0 or r.random() < 0.3) else ("i", r.randint(1, 3))
        mn = ("i", r.randint(1, 3)) if r.random() < 0.15 else None
        mx = ("i", r.randint(2, 5)) if (mn is None and r.random() < 0.15) else None
        return ("dice", times, sides, keep, kk, mn, mx)

    def e_bool(self, d):
        r = self.r
        k = r.random()
        if d >= self.max_depth or k < 0.55:
            return ("bin", r.choice(["comp.lt", "comp.le", "comp.eq", "comp.ne", "comp.ge", "comp.gt"]), self.e_int(d + 1), self.e_int(d + 1))
        if k < 0.7:
            return ("and", self.e_bool(d + 1), self.e_bool(d + 1))
        if k < 0.85:
            return ("or", self.e_bool(d + 1), self.e_bool(d + 1))
        if k < 0.92:
            return ("bin", "comp.eq", self.e("str", d + 1), self.e("str", d + 1))
        return ("bin", r.choice(["comp.eq", "comp.ne"]), self.e_arr(d + 1), self.e_arr(d + 1))

    def e_str(self, d):
        r = self.r
        k = r.random()
        if d >= self.max_depth or k < 0.4:
            return ("s", r.choice(["", "a", "ab", "力量", "x y", "it's", "q\\z"]))
        if k < 0.55:
            v = self.pick("str")
            if v:
                return ("var", v)
        if k < 0.7:
            return ("bin", "add", self.e_str(d + 1), self.e_str(d + 1))
        if k < 0.9:
            parts = []
            for _ in range(r.randint(1, 3)):
                parts.append(("t", r.choice(["", "a", "b ", "=", "力"])))
                h = r.random()
                if h < 0.6:
                    parts.append(("h", self.e(r.choice(["int", "str"]), d + 1)))
                elif h < 0.8:
                    parts.append(("h", ("seq", [self.stmt(d + 1) for _ in range(r.randint(1, 2))])))
                else:
                    parts.append(("h", ("seq", [("if", self.e_bool(d + 1), ("seq", [self.e_int(d + 1)]), None)])))
            parts.append(("t", r.choice(["", "z"])))
            return ("tmpl", parts)
        return ("idx", self.e_str(d + 1), ("i", r.randint(0, 2)))

    def e_arr(self, d):
        r = self.r
        k = r.random()
        if d >= self.max_depth or k < 0.45:
            return ("arr", [self.e_int(d + 1) for _ in range(r.randint(0, 4))])
        if k < 0.6:
            v = self.pick("arr")
            if v:
                return ("var", v)
        if k < 0.7:
            a, b = r.randint(0, 5), r.randint(0, 5)
            return ("range", ("i", a), ("i", b))
        if k < 0.8:
            return ("bin", "add", self.e_arr(d + 1), self.e_arr(d + 1))
        if k < 0.88:
            return ("bin", "mul", self.e_arr(d + 1), ("i", r.randint(0, 3)))
        lo = None if r.random() < 0.3 else ("i", r.randint(0, 3))
        hi = None if r.random() < 0.3 else ("i", r.randint(0, 4))
        v = self.pick("arr")
        base = ("var", v) if (v and r.random() < 0.6) else (("arr", [self.e_int(d + 1) for _ in range(r.randint(0, 5))]) if r.random() < 0.7 else ("range", ("i", r.randint(0, 3)), ("i", r.randint(0, 6))))
        return ("slc", base, lo, hi)

    def e_dict(self, d):
        r = self.r
        v = self.pick("dict")
        if v and r.random() < 0.4:
            return ("var", v)
        return ("dict", [(("s", kname), self.e_int(d + 1)) for kname in r.sample(["k", "m", "n1"], r.randint(0, 3))])

    # ---------- statements
    def stmt(self, d=0):
        r = self.r
        k = r.random()
        if k < 0.26:
            kind = r.choice(["int", "int", "int", "str", "arr", "dict"])
            v = self.pick(kind) if r.random() < 0.5 else None
            val = self.e(kind, d + 1)
            if v is None:
                v = self.fresh({"int": "x", "str": "sv", "arr": "ar", "dict": "dc"}[kind])
            self.vars[v] = kind
            return ("asg", v, val)
        if k < 0.29:
            a = self.pick("arr")
            if a:
                m = self.fresh("mt")
                self.vars[m] = "meth"
                return ("asg", m, ("attr", ("var", a), r.choice(["len", "sum"])))
        if k < 0.40:
            return self.e(r.choice(["int", "int", "str", "arr"]), d + 1)
        if k < 0.52 and d < self.max_depth:
            c = self.e_bool(d + 1)
            t = ("seq", [self.stmt(d + 1) for _ in range(r.randint(0, 2))])
            el = None
            if r.random() < 0.5:
                el = ("seq", [self.stmt(d + 1) for _ in range(r.randint(0, 2))]) if r.random() < 0.7 else ("if", self.e_bool(d + 1), ("seq", [self.stmt(d + 1)]), None)
            return ("if", c, t, el)
        if k < 0.62 and d < self.max_depth:
            i = self.fresh("i")
            # the counter is not registered as a variable: nothing else assigns it, so the loop is bounded
            self.in_loop += 1
            body = [("asg", i, ("bin", "add", ("var", i), ("i", 1)))]
            for _ in range(r.randint(0, 2)):
                if r.random() < 0.35:
                    body.append(("if", ("bin", r.choice(["comp.eq", "comp.gt"]), ("var", i), ("i", r.randint(0, 4))),
                                 ("seq", ([self.stmt(d + 2)] if r.random() < 0.4 else []) + [r.choice([("brk",), ("cont",)])]), None))
                else:
                    body.append(self.stmt(d + 1))
            self.in_loop -= 1
            return ("seq", [("asg", i, ("i", 0)), ("while", ("bin", "comp.lt", ("var", i), ("i", r.randint(0, 5))), ("seq", body))])
        if k < 0.70 and d == 0 and not self.in_func:
            fn = self.fresh("fn")
            ps = [self.fresh("pa") for _ in range(r.randint(0, 2))]
            saved = dict(self.vars)
            for p in ps:
                self.vars[p] = "int"
            self.in_func += 1
            body = [self.stmt(1) for _ in range(r.randint(0, 2))]
            if r.random() < 0.4:
                body.append(("if", self.e_bool(2), ("seq", [("ret", self.e_int(2))]), None))
            if r.random() < 0.7:
                body.append(self.e_int(1) if r.random() < 0.6 else ("ret", self.e_int(1) if r.random() < 0.8 else None))
            self.in_func -= 1
            self.vars = saved
            self.funcs[fn] = len(ps)
            return ("func", fn, ps, None, ("seq", body))
        if k < 0.76 and d == 0 and not self.in_func:
            cv = self.fresh("cv")
            body = self.e_int(1)
            self.comps.append(cv)
            return ("comp", cv, None, body)
        if k < 0.82:
            a = self.pick("arr")
            if a:
                return ("iset", ("var", a), ("i", r.choice([0, 1, 2, 9])), self.e_int(d + 1))
        if k < 0.87:
            dd = self.pick("dict")
            if dd:
                return ("aset", dd, r.choice(["k", "m", "w"]), self.e_int(d + 1)) if r.random() < 0.5 else ("iset", ("var", dd), ("s", r.choice(["k", "w"])), self.e_int(d + 1))
        if k < 0.91:
            a = self.pick("arr")
            if a:
                return ("sset", ("var", a), ("i", r.randint(0, 2)), ("i", r.randint(0, 3)), self.e_arr(d + 1))
        if self.in_func and r.random() < 0.3:
            return ("ret", self.e_int(d + 1))
        return self.e_int(d + 1)

    def program(self, nstmts=None):
        n = nstmts or self.r.randint(1, 5)
        return ("seq", [self.stmt(0) for _ in range(n)])
