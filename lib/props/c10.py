"""C10 — deserialising untrusted or outdated JSON never yields a booby-trapped value.

Proof: DS/Props/C10.lean — on the Lean model of UnmarshalJSON (JSON trees): every successful decode is well-typed
(no nil pointers inside containers, no native function without its implementation), for all documents.
Tie: json stream (jsondecm/jsonmapm: the real decoder vs the model on well-typed, ill-typed, unknown-tag, null,
wrong-case, duplicate-key documents).  Oracle on the implementation: the full operation battery (printing, repr,
truthiness, equality, re-serialisation, 45 scripts with the value bound to a variable) must be crash-free.
"""
import json
import re

from lib.common import go_child,  Run, hx

NAMES = ["ceil", "floor", "abs", "toStr", "load", "store", "dir", "nosuch", "", "Array.kh", "Ceil"]
KEYS = ["a", "b", "力", "k", "__proto__", "A"]


def rnd_scalar(r):
    return r.choice([0, 1, -1, 5, 2**31, 2**63 - 1, -2**63, 2**63, 1.5, -0.25, 1e3, 1e400, "", "x", "力量", "a'b", None, True, False,
                     [], {}, [1], {"t": 0}])


# bodies that no longer parse (an outdated or damaged store): cut inside loops, blocks, calls, templates, lists
BROKEN_BODY = ["while 1 { if 1 { break } if 1 { break }", "if 1 { 2 } else {", "[1, 2", "func g() { 1 } g(", "`a{", "1 ? 2 : ", "x = (", "while 1 { break } }",
               "i=0; while i<3 { i=i+1; if i==2 { continue }", "a+", "x +", "1; 2; (", "if a { return 1 }; while a { a = a - 1; if a { break }", "d6 + 2d", "{'k': 1, ", "a[1",
               "while a { while 1 { if a { break } if 1 { break }", "`{% if 1 { 2 %}`", "f(1,", "return",
               # texts that parse but leave NO value on the stack
               ";", " ; ; ", "// d20 + 5", "// c\n", ";// x", "#c"]


DEPTH_CAP_HEX = "调用层数过多".encode().hex()


def well_typed(r, depth):
    t = r.choice([0, 0, 1, 2, 2, 4, 5, 6, 6, 7, 7, 8, 9, 10]) if depth > 0 else r.choice([0, 1, 2, 4])
    if t == 0:
        return {"t": 0, "v": r.choice([0, 1, -7, 42, 2**40, -2**63, 2**63 - 1])}
    if t == 1:
        return {"t": 1, "v": r.choice([0.5, -1.25, 3.0, 1e10, 2, -0.0])}
    if t == 2:
        return {"t": 2, "v": r.choice(["", "abc", "力量", "a\nb", "q\"'`{}", "é\U0001F600"])}
    if t == 4:
        return {"t": 4}
    if t == 5:
        d = {"expr": r.choice(["1+1", "d6", "this.n*2", "", "x +"] + ([r.choice(BROKEN_BODY)] if r.random() < 0.5 else []))}
        if r.random() < 0.5:
            d["attrs"] = {r.choice(KEYS): well_typed(r, depth - 1) for _ in range(r.randint(0, 2))}
        return {"t": 5, "v": d}
    if t == 6:
        return {"t": 6, "v": {"list": [well_typed(r, depth - 1) for _ in range(r.randint(0, 3))]}}
    if t == 7:
        return {"t": 7, "v": {"dict": {r.choice(KEYS): well_typed(r, depth - 1) for _ in range(r.randint(0, 3))}}}
    if t == 8:
        return {"t": 8, "v": {"expr": r.choice(["a+1", "1", "a+", "return 5"] + ([r.choice(BROKEN_BODY)] * 2 if r.random() < 0.5 else [])), "name": r.choice(["f", "", "力"]),
                              "params": r.choice([[], ["a"], ["a", "b"]])}}
    if t == 9:
        return {"t": 9, "v": {"name": r.choice(NAMES[:7])}}
    return {"t": 10, "v": {"name": r.choice(["obj", ""])}}


def mutate(r, doc, depth=0):
    """ill-typed / outdated variants of a well-typed document"""
    if not isinstance(doc, dict) or r.random() < 0.15:
        return rnd_scalar(r)
    d = dict(doc)
    k = r.random()
    if k < 0.12:
        d.pop("T", None)
        d["t"] = r.choice([3, 11, 20, 21, 99, -1, 255, "0", 1.5, None, True, [], 2**40])
    elif k < 0.2:
        d.pop("v", None); d.pop("V", None)
    elif k < 0.3:
        d.pop("V", None)
        d["v"] = rnd_scalar(r)
    elif k < 0.38 and "v" in d:
        d = {kk.upper() if r.random() < 0.5 else kk: vv for kk, vv in d.items()}
    elif k < 0.45:
        d.pop("T", None)
        d["t"] = r.choice([0, 1, 2, 4, 5, 6, 7, 8, 9, 10])       # keep v, change the tag
    elif isinstance(d.get("v"), dict):
        v = {kk.lower(): vv for kk, vv in d["v"].items()}
        kk = r.random()
        if "list" in v and isinstance(v["list"], list):
            lst = list(v["list"])
            if kk < 0.4:
                lst.insert(r.randint(0, len(lst)), None)
            elif kk < 0.6:
                lst.insert(r.randint(0, len(lst)), rnd_scalar(r))
            elif lst:
                i = r.randrange(len(lst)); lst[i] = mutate(r, lst[i], depth + 1)
            else:
                v["list"] = rnd_scalar(r)
            if "list" in v and isinstance(v["list"], list):
                v["list"] = lst
        elif "dict" in v and isinstance(v["dict"], dict):
            dd = dict(v["dict"])
            if kk < 0.4:
                dd[r.choice(KEYS)] = None
            elif kk < 0.6:
                dd[r.choice(KEYS)] = rnd_scalar(r)
            elif dd:
                key = r.choice(list(dd)); dd[key] = mutate(r, dd[key], depth + 1)
            else:
                dd = rnd_scalar(r)
            v["dict"] = dd
        elif "name" in v and "expr" not in v:
            v["name"] = r.choice(NAMES + [None, 5])
        elif "attrs" in v:
            v["attrs"] = r.choice([None, [], {"a": None}, {"a": 5}, {"a": mutate(r, {"t": 0, "v": 1})}])
        elif "params" in v:
            v["params"] = r.choice([None, [None], ["a", None], [1], "a", {"x": 1}, ["a", "a"]])
        else:
            v[r.choice(["expr", "name", "list", "dict", "extra"])] = rnd_scalar(r)
        d["v"] = v
    return d


def dumps(doc, r, dup_ok=False):
    """json text; sometimes with odd whitespace (and, for the battery only, duplicate keys)"""
    s = json.dumps(doc, ensure_ascii=r.random() < 0.5, allow_nan=False) if not has_nonfinite(doc) else None
    if s is None:
        s = json.dumps(doc).replace("Infinity", "1e999").replace("NaN", "null")
    if dup_ok and r.random() < 0.5 and s.startswith("{") and len(s) > 2:
        s = s[:-1] + ', "v": {"t": 0, "v": 7}}'          # duplicate key, last wins
    if r.random() < 0.05:
        s = " " + s.replace(":", " : ") + "\n"
    return s


def has_nonfinite(x):
    if isinstance(x, float):
        return x != x or x in (float("inf"), float("-inf"))
    if isinstance(x, dict):
        return any(has_nonfinite(v) for v in x.values())
    if isinstance(x, list):
        return any(has_nonfinite(v) for v in x)
    return False


def main(tier):
    run = Run("C10", tier, module="DS.Props.C10", props_file="DS/Props/C10.lean",
              extra_files=["DS/Proofs/JsonLemmas.lean", "DS/Model/Json.lean"])
    if run.prepare():
        run.proofs()
        r = run.rng
        docs = []
        n = 5000 if tier == "thorough" else 1000
        for _ in range(n):
            d = well_typed(r, 3)
            k = r.random()
            if k < 0.35:
                pass
            else:
                for _ in range(r.randint(1, 2)):
                    d = mutate(r, d)
            try:
                docs.append(dumps(d, r))
            except (ValueError, TypeError):
                continue
        dupdocs = []
        for _ in range(200 if tier == "thorough" else 60):
            try:
                dupdocs.append(dumps(mutate(r, well_typed(r, 3)), r, dup_ok=True))
            except (ValueError, TypeError):
                pass
        # a repeated member: the decoder of the standard library hands each occurrence to the same receiver in turn (the last one counts;
        # the receiver has been written to by the earlier one)
        dupdocs += ['{"t":7,"v":{"dict":{"hp":{"t":0,"v":10}},"dict":{"mp":{"t":0,"v":3}}}}',
                    '{"t":7,"v":{"dict":{"hp":{"t":0,"v":10}}},"v":{"dict":{"mp":{"t":0,"v":3}}}}',
                    '{"t":7,"v":{"dict":{"a":{"t":0,"v":1},"b":{"t":0,"v":2}},"dict":{},"dict":{"c":{"t":0,"v":3}}}}',
                    '{"t":5,"v":{"expr":"1","attrs":{"a":{"t":0,"v":1}},"attrs":{"b":{"t":0,"v":2}}}}',
                    '{"t":6,"v":{"list":[{"t":7,"v":{"dict":{"x":{"t":0,"v":1}},"dict":{"y":{"t":0,"v":2}}}}]}}']
        docs += ["null", "5", "\"x\"", "[]", "{}", "", "{", "{\"t\":0,\"v\":03}", "{\"t\":0,\"v\":1}x", "{\"t\":0,\"v\":1e2}",
                 "{\"t\":9,\"v\":{\"name\":\"nosuch\"}}", "{\"t\":10,\"v\":{\"name\":\"x\"}}", "{\"t\":6,\"v\":{\"list\":[null]}}",
                 "{\"t\":7,\"v\":{\"dict\":{\"a\":null}}}"]
        lines = [f"jsondecm {hx(d)}" for d in docs]
        res = run.diff_stream("jsondecm", lines, go_timeout=300)
        kinds = {}
        for d, (ln, g, m, v) in zip(docs, res):
            k = "err" if g == "err" else "ok"
            kinds[k] = kinds.get(k, 0) + 1
        run.dist.update({"decode." + k: v for k, v in kinds.items()})
        # variable maps
        maps = []
        for _ in range(600 if tier == "thorough" else 150):
            m = {r.choice(KEYS): (well_typed(r, 2) if r.random() < 0.6 else mutate(r, well_typed(r, 2))) for _ in range(r.randint(0, 3))}
            if r.random() < 0.15:
                m[r.choice(KEYS)] = None
            try:
                maps.append(dumps(m, r))
            except (ValueError, TypeError):
                pass
        maps += ["null", "[]", "{\"a\":null}", "5"]
        run.diff_stream("jsonmapm", [f"jsonmapm {hx(d)}" for d in maps], go_timeout=300)
        # restored values that refer to each other: whatever cycle of calls / loads the restored bodies form, the budget ends it
        # with an error — the first evaluation compiles the bodies on the way down, so this is also the "first use" history
        def J(o):
            return _json0.dumps(o, ensure_ascii=False)
        import json as _json0
        C = lambda e: {"t": 5, "v": {"expr": e}}
        Fn = lambda e, ps: {"t": 8, "v": {"expr": e, "name": "f", "params": ps}}
        I = lambda n: {"t": 0, "v": n}
        RECUR = [
            ({"x": C("n > 0 ? f(&x) : 0"), "f": Fn("c", ["c"]), "n": I(1)}, ["x", "x", "n = 0", "x", "n = 1", "x"]),
            ({"x": C("n > 0 ? f(&x) : 0"), "f": Fn("c", ["c"]), "n": I(0)}, ["x", "n = 1", "x"]),
            ({"a": C("b"), "b": C("a")}, ["a", "b", "a + b"]),
            ({"f": Fn("g()", []), "g": Fn("f()", [])}, ["f()", "g()"]),
            ({"x": C("x + 1")}, ["x", "x"]),
            ({"f": Fn("c", ["c"]), "x": C("f(&x)")}, ["x", "f(&x)", "x"]),
            ({"x": C("&x.compute()")}, ["x", "x"]),
            ({"f": Fn("f()", [])}, ["f()", "f()"]),
            ({"f": Fn("n > 0 ? f(n - 1) + f(n - 1) : 1", ["n"])}, ["f(3)", "f(30)", "f(3)"]),
            ({"x": C("`{x}`")}, ["x"]),
            ({"x": C("[x]")}, ["x"]),
            ({"d1": {"t": 7, "v": {"dict": {"c": C("d1.c")}}}}, ["d1.c", "d1.c"]),
            ({"x": C("load('x')")}, ["x", "x"]),
            ({"f": Fn("load('g')()", []), "g": Fn("load('f')()", [])}, ["f()"]),
        ]
        rl = [f"jsonmaprun {hx(J(m))} " + " ".join(hx(sc) for sc in scripts) for m, scripts in RECUR]
        out = run.go_only("restored-recursion", rl, go_timeout=600, line_timeout=60)
        for (m, scripts), (ln, g) in zip(RECUR, out):
            run.nontriv(("recur", J(m)))
            if g.startswith("died") or "panic" in g:
                run.violation("booby-trapped-value:restored-values-recurse-without-bound", {"variables": J(m), "scripts": scripts, "implementation": g[:400]})
            elif DEPTH_CAP_HEX in g:
                # every call costs at least 100 operations: under a budget of 30000 the budget ends a recursion after 300 levels,
                # long before the library's own cap of 1000 calls in progress
                run.violation("booby-trapped-value:budget-does-not-bound-the-recursion", {"variables": J(m), "scripts": scripts, "implementation": g[:400]})
        # the same families when the host keeps the variables as JSON and decodes them afresh on EVERY load (each recursion level
        # then meets a value that was never compiled): the budget still ends the run
        gl = []
        for m, scripts in RECUR:
            for sc in scripts[:2]:
                gl.append((m, sc, f"custom -,L30000 {1:032x} gjson:{hx(J(m))} {hx(sc)}"))
        gout = go_child(line_timeout=60).run([x[2] for x in gl])
        for (m, sc, _), o in zip(gl, gout):
            run.evaluations += 1
            run.nontriv(("recur-g", J(m), sc))
            if o.startswith("died") or o.startswith("panic"):
                run.violation("booby-trapped-value:restored-values-recurse-without-bound", {"host_globals_decoded_on_every_load": J(m), "script": sc, "implementation": o[:400]})
            elif DEPTH_CAP_HEX in o:
                run.violation("booby-trapped-value:budget-does-not-bound-the-recursion", {"host_globals_decoded_on_every_load": J(m), "script": sc, "implementation": o[:400]})
        # stored functions / computed values whose body no longer parses, every cut, every arity the battery calls with
        import json as _json
        for body in BROKEN_BODY:
            for params in ([], ["a"], ["a", "b"]):
                docs.append(_json.dumps({"t": 8, "v": {"expr": body, "name": "f", "params": params}}, ensure_ascii=False))
            docs.append(_json.dumps({"t": 5, "v": {"expr": body}}, ensure_ascii=False))
            docs.append(_json.dumps({"t": 7, "v": {"dict": {"a": {"t": 8, "v": {"expr": body, "name": "a", "params": ["a"]}}}}}, ensure_ascii=False))
        # battery on the implementation
        out = run.go_only("battery", [f"jsondec {hx(d)}" for d in docs + dupdocs], go_timeout=600, line_timeout=60)
        for d, (ln, g) in zip(docs + dupdocs, out):
            if g == "err":
                continue
            mo = re.match(r"ok (.*) battery=(.*)$", g)
            if not mo:
                run.violation("battery:crash-outside-recover", {"document": d, "implementation": g[:300]})
                continue
            run.nontriv(d)
            if mo.group(2) != "clean":
                run.violation("booby-trapped-value", {"document": d, "decoded": mo.group(1), "crashing_operations": mo.group(2)[:600]})
        out = run.go_only("battery-map", [f"jsonmap {hx(d)}" for d in maps], go_timeout=600, line_timeout=60)
        for d, (ln, g) in zip(maps, out):
            if g == "err":
                continue
            mo = re.match(r"ok (.*) battery=(.*)$", g)
            if not mo:
                run.violation("battery:crash-outside-recover", {"document": d, "implementation": g[:300]})
            elif mo.group(2) != "clean":
                run.violation("booby-trapped-map", {"document": d, "decoded": mo.group(1), "crashing_operations": mo.group(2)[:600]})
        run.sample({"stream": "jsondecm", "document": docs[0]})
        run.sample({"stream": "jsondecm", "document": docs[len(docs) // 2]})
    return run.finish(
        trusted=["Lean 4.33 kernel", "axioms: propext, Classical.choice, Quot.sound", "Go harness + Lean driver (incl. its JSON text parser)",
                 "encoding/json at the byte level (modelled at tree level, exercised by the stream)"],
        rule="JSON documents: type-directed well-typed values (all tags, nesting 3) and 1-2 mutations of them (unknown/ill-typed tag, "
             "missing or ill-typed v, null or scalar elements in lists/dicts, unknown native names, wrong-case keys, changed tag with "
             "the old payload, odd attrs/params, duplicate keys), plus malformed text; distinct by document text",
        assumptions=["crash-freedom of operations on well-typed values is C01's theorem/oracle; here the battery validates it on decoded values"])
