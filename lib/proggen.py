"""Type-directed random DiceScript programs (shared by the C01/C02/C07/C08 checks).

Identifiers come from a *safe* pool (x0.., y0.., fn0.., cv0.., k0..): single letters a b c d f p and k q m suffixes are
dice operators whenever a family is enabled, so they are never used as names here (a separate colliding pool exists for
the parser properties)."""

WS = ["", " ", "  ", "\n", "\t"]


class ProgGen:
    def __init__(self, r, dice=True, floats=True, illtyped=0.06, max_depth=3):
        self.r = r
        self.dice = dice
        self.floats = floats
        self.ill = illtyped
        self.max_depth = max_depth
        self.vars = {}        # name -> kind
        self.funcs = {}       # name -> arity
        self.counter = 0
        self.cfg = set()
        self.in_func = 0
        self.in_loop = 0

    # ---------- helpers
    def fresh(self, prefix):
        self.counter += 1
        return f"{prefix}{self.counter}"

    def pick_var(self, kind):
        c = [n for n, k in self.vars.items() if k == kind]
        return self.r.choice(c) if c else None

    def ws(self):
        return self.r.choice(["", "", " ", " ", "  "])

    # ---------- expressions by kind
    def expr(self, kind="int", d=0):
        r = self.r
        if r.random() < self.ill and d > 0:
            kind = r.choice(["int", "float", "str", "arr", "dict", "null", "func"])
        f = getattr(self, "e_" + kind)
        return f(d)

    def e_int(self, d):
        r = self.r
        k = r.random()
        if d >= self.max_depth or k < 0.25:
            return str(r.choice([0, 1, 2, 3, 5, 7, 10, 42, 100, 511, 512, 513, 9223372036854775807]) if r.random() < 0.15 else r.randint(0, 20))
        if k < 0.35:
            v = self.pick_var("int")
            if v:
                q = r.random()
                if q < 0.06:
                    return f"load('{v}')"
                if q < 0.12:
                    # the raw value of a computed variable is the computed object itself: compute it explicitly
                    return f"loadRaw('{v}').compute()" if v.startswith("cv") else f"loadRaw('{v}')"
                if q < 0.18 and v.startswith("cv"):
                    return f"&{v}.compute()"
                return v
        if k < 0.6:
            op = r.choice(["+", "-", "*", "/", "%", "+", "-", "*"])
            a, b = self.e_int(d + 1), self.e_int(d + 1)
            if op in "/%" and r.random() < 0.8:
                b = str(r.randint(1, 9))
            return f"{a}{self.ws()}{op}{self.ws()}{b}"
        if k < 0.64:
            return f"{self.e_int(d + 1)} ** {r.randint(0, 4)}"
        if k < 0.68:
            return f"({self.e_int(d + 1)})"
        if k < 0.72:
            return f"{r.choice(['-', '-', '+', '－', '＋'])}{self.atom_int(d + 1)}"
        if k < 0.78:
            return f"{self.e_bool(d + 1)} ? {self.e_int(d + 1)} : {self.e_int(d + 1)}"
        if k < 0.82 and self.dice:
            return self.dice_term()
        if k < 0.86:
            if r.random() < 0.3:
                # postfix forms on an array literal: [..]kh, [..]kl2, [..][i]
                return f"[{r.randint(0, 9)}, {r.randint(0, 9)}, {self.atom_int(d + 2)}]{r.choice(['kh', 'kl', 'kh2', 'kl1', '[0]', '[1][0]' if False else '[-1]'])}"
            return f"{self.e_arr(d + 1)}.{r.choice(['len()', 'sum()', 'kh()', 'kl(2)', 'kh(1)'])}"
        if k < 0.89:
            a = self.pick_var("arr")
            if a:
                return f"{a}[{r.choice([0, 1, -1, 2, 5])}]"
        if k < 0.92 and self.funcs:
            fn = r.choice(list(self.funcs))
            return f"{fn}(" + ", ".join(self.e_int(d + 1) for _ in range(self.funcs[fn])) + ")"
        if k < 0.95:
            return r.choice([f"abs({self.e_int(d + 1)})", f"toInt({self.e_float(d + 1)})" if self.floats else "toInt('12')",
                             f"ceil({self.e_float(d + 1)})" if self.floats else "3", f"typeId({self.expr('arr', d + 1)})",
                             f"toInt('{r.randint(-50, 50)}')", f"{self.e_str(d + 1)}.len()" if False else "4"])
        if k < 0.97:
            return f"{self.e_int(d + 1)} {r.choice(['&', '|'])} {self.e_int(d + 1)}"
        return f"(null ?? {self.e_int(d + 1)})"

    def atom_int(self, d):
        k = self.r.random()
        if k < 0.08:
            return self.r.choice(["true", "false"])           # keyword spellings of 1 and 0
        return f"({self.e_int(d)})" if k < 0.5 else str(self.r.randint(0, 9))

    def e_bool(self, d):
        r = self.r
        k = r.random()
        if d >= self.max_depth or k < 0.5:
            return f"{self.e_int(d + 1)} {r.choice(['<', '<=', '==', '!=', '>=', '>'])} {self.e_int(d + 1)}"
        if k < 0.7:
            return f"{self.e_bool(d + 1)} {r.choice(['&&', '||'])} {self.e_bool(d + 1)}"
        if k < 0.8:
            return f"{self.e_str(d + 1)} == {self.e_str(d + 1)}"
        if k < 0.9:
            return f"{self.e_arr(d + 1)} == {self.e_arr(d + 1)}"
        return f"toBool({self.expr(r.choice(['int', 'str', 'arr', 'null']), d + 1)})"

    def e_float(self, d):
        r = self.r
        if not self.floats:
            return self.e_int(d)
        k = r.random()
        if d >= self.max_depth or k < 0.5:
            return r.choice(["0.5", "1.5", "2.25", "0.125", "3.0", "10.75", "-0.5" if False else "4.5"])
        if k < 0.8:
            return f"{self.e_float(d + 1)} {r.choice(['+', '-', '*'])} {r.choice([self.e_float(d + 1), self.e_int(d + 1)])}"
        if k < 0.9:
            return f"{self.e_float(d + 1)} / {r.choice(['2', '4', '0.5'])}"
        return f"toFloat({self.e_int(d + 1)})"

    def e_str(self, d):
        r = self.r
        k = r.random()
        if d >= self.max_depth or k < 0.4:
            return r.choice(["'ab'", "\"q\"", "'力量'", "''", "'x y'", "'it\\'s'", "'a\\nb'"])
        if k < 0.5:
            v = self.pick_var("str")
            if v:
                return v
        if k < 0.65:
            return f"{self.e_str(d + 1)} + {self.e_str(d + 1)}"
        if k < 0.8:
            q = r.choice("`\x1e")
            inner = r.choice([self.e_int(d + 1), self.e_str(d + 1), f"% {self.e_int(d + 1)}; {self.e_int(d + 1)} %"])
            if inner.startswith("%"):
                return f"{q}t{{{inner}}}u{q}"
            return f"{q}s{{{inner}}}e{q}"
        if k < 0.88:
            return f"toStr({self.expr(r.choice(['int', 'str', 'arr', 'null']), d + 1)})"
        if k < 0.94:
            return f"{self.e_str(d + 1)}[{r.choice(['0', '1', '-1', '0:1', '1:', ':2'])}]"
        return f"repr({self.expr(r.choice(['int', 'str']), d + 1)})"

    def e_arr(self, d):
        r = self.r
        k = r.random()
        if d >= self.max_depth or k < 0.4:
            return "[" + ", ".join(self.e_int(d + 2) for _ in range(r.randint(0, 3))) + "]"
        if k < 0.5:
            v = self.pick_var("arr")
            if v:
                return v
        if k < 0.6:
            return f"[{r.randint(0, 5)}..{r.randint(0, 8)}]"
        if k < 0.7:
            return f"{self.e_arr(d + 1)} + {self.e_arr(d + 1)}"
        if k < 0.78:
            return f"{self.e_arr(d + 1)} * {r.choice([0, 1, 2, 3])}"
        if k < 0.86:
            return f"{self.e_arr(d + 1)}[{r.choice(['0:1', '1:', ':2', '-2:', ':'])}]"
        if k < 0.93:
            return "[" + ", ".join(self.expr(r.choice(["int", "str", "arr", "null"]), d + 2) for _ in range(r.randint(1, 3))) + "]"
        return f"{self.e_arr(d + 1)}.push({self.e_int(d + 1)})"

    def e_dict(self, d):
        r = self.r
        if d >= self.max_depth or r.random() < 0.7:
            return "{" + (f"'{r.choice(['k', 'm', 'n'])}': {self.expr(r.choice(['int', 'str', 'arr']), d + 2)}" if r.random() < 0.8 else "") + "}"
        v = self.pick_var("dict")
        return v or "{}"

    def e_null(self, d):
        return self.r.choice(["null", "null", "nosuchvar"])

    def e_func(self, d):
        return self.r.choice(["abs", "toStr", "[1].len"] + list(self.funcs))

    def dice_term(self):
        r = self.r
        k = r.random()
        if k < 0.08:
            # omitted sides: the default-sides expression (push.def_expr reads the die's own text)
            return "(" + r.choice(["d", "3d", "d优势", "d劣势", "2d", "dk", "3dk2", "(2)d", "3dkl2", "4ddh2", "4ddl", "3dmin2", "2dmax3", "3dq", "2D", "3dkh1max50"]) + ")"
        if k < 0.55:
            t = r.choice(["", "2", "3", "4"])
            s = f"{t}{r.choice('dddD')}{r.choice([4, 6, 8, 20, 100])}"
            if t and r.random() < 0.4:
                # every spelling, the count written, parenthesised or left out (then it is 1)
                s += r.choice(["k", "kh", "kl", "dl", "dh", "q", "K", "Q"]) + r.choice([str(r.randint(1, 3)), str(r.randint(1, 3)), "", f"({r.randint(1, 2)})"])
            elif not t and r.random() < 0.15:
                s += r.choice(["优势", "劣势", "優勢", "劣勢"])
            if r.random() < 0.2:
                s += r.choice(["min", "max"]) + str(r.randint(1, 4))
            if r.random() < 0.08:
                # operands may be parenthesised expressions: the term then ends in ')'
                s = r.choice([f"{r.randint(1, 3)}d({r.randint(2, 4)}+2)", f"({r.randint(1, 2)}+1)d6", f"2d6k({r.randint(1, 2)})", f"d({r.choice([4, 6, 20])})"])
            return s
        if k < 0.65:
            self.cfg.add("f")
            return "f"
        if k < 0.78:
            self.cfg.add("c")
            return r.choice(["b", "p", "b2", "p3"])
        if k < 0.88:
            self.cfg.add("w")
            t = f"{r.choice([2, 3, 5])}a{r.choice([9, 10, 11])}" + (f"k{r.randint(5, 9)}" if r.random() < 0.3 else "") + (f"m{r.randint(2, 9)}" if r.random() < 0.2 else "") + \
                (f"q{r.randint(2, 6)}" if r.random() < 0.15 else "")
            if r.random() < 0.15:
                # a pool term in the operand of another one
                t = r.choice([f"({t})a{r.choice([9, 11])}", f"2a({t})", f"(1+{t})a10k({t})"])
            return t
        if k < 0.95:
            self.cfg.add("d")
            t = f"{r.choice([2, 3])}c{r.choice([8, 10, 11])}" + (f"m{r.randint(3, 12)}" if r.random() < 0.25 else "")
            if r.random() < 0.15:
                t = r.choice([f"(1+{t})c{r.choice([9, 11])}", f"2c(2+{t})"])
            return t
        return r.choice(["d", "2d", "(2d3)d4", "d优势", "d劣势"])

    # ---------- statements
    def stmt(self, d=0):
        r = self.r
        k = r.random()
        if k < 0.3:
            kind = r.choice(["int", "int", "str", "arr", "dict", "float" if self.floats else "int"])
            name = self.pick_var(kind) if r.random() < 0.4 else None
            name = name or self.fresh({"int": "x", "str": "sv", "arr": "ar", "dict": "dc", "float": "fl"}[kind])
            e = self.expr(kind, 1)
            self.vars[name] = kind
            return f"{name}{self.ws()}={self.ws()}{e}"
        if k < 0.4:
            return self.expr(r.choice(["int", "str", "arr", "int"]), 1)
        if k < 0.5 and d < 2:
            body = self.block(d + 1)
            els = ""
            if r.random() < 0.5:
                els = " else " + self.block(d + 1)
            elif r.random() < 0.3:
                els = f" else if {self.e_bool(2)} " + self.block(d + 1)
            return f"if {self.e_bool(1)} {body}{els}"
        if k < 0.6 and d < 2:
            i = self.fresh("i")
            n = r.randint(0, 5)
            self.in_loop += 1
            inner = self.stmts(r.randint(1, 2), d + 1)
            if r.random() < 0.3:
                inner = f"if {i} == {r.randint(0, 4)} {{ {r.choice(['break', 'continue'])} }}; " + inner
            self.in_loop -= 1
            return f"{i} = 0; while {i} < {n} {{ {i} = {i} + 1; {inner} }}"
        if k < 0.68 and d == 0 and not self.in_func:
            name = self.fresh("fn")
            arity = r.randint(0, 2)
            params = ["pa", "pb"][:arity]
            saved = dict(self.vars)
            for p in params:
                self.vars[p] = "int"
            self.in_func += 1
            body = self.stmts(r.randint(1, 2), 2)
            if r.random() < 0.3:
                # definitions nested inside a body: a function in a function, a computed value in a function, both
                inner = self.fresh("in")
                nested = r.choice([f"func {inner}(qa) {{ qa * 2 }}", f"func {inner}(qa) {{ func {inner}b(qb) {{ qb + 1 }}; {inner}b(qa) }}", f"&{inner} = 1 + {self.e_int(2)}",
                                   f"&{inner} = 2; func {inner}f() {{ {inner} + 1 }}"])
                use = f"{inner}(3)" if nested.startswith("func") else (f"{inner}f()" if "f()" in nested else inner)
                body = f"{r.choice(['x9 = 1 + 2; ', ''])}{nested}; {body}; {use}"
            if r.random() < 0.5:
                body += f"; return {self.e_int(2)}"
            else:
                body += f"; {self.e_int(2)}"
            self.in_func -= 1
            self.vars = saved
            self.funcs[name] = arity
            return f"func {name}({', '.join(params)}) {{ {body} }}"
        if k < 0.75 and d == 0:
            name = self.fresh("cv")
            e = self.e_int(2)
            self.vars[name] = "int"
            s = f"&{name} = {e}"
            if r.random() < 0.3:
                s += f"; &{name}.n = {r.randint(1, 9)}"
            return s
        if k < 0.82:
            a = self.pick_var("arr")
            if a:
                return r.choice([f"{a}[0] = {self.e_int(2)}", f"{a}.push({self.e_int(2)})", f"{a}[0:1] = {self.e_arr(2)}", f"{a}.pop()", f"{a}.shift()", f"{a}[0:2:]", f"{a}[1::]", f"{a}[0:2:1]", f"{a}[::]"])
        if k < 0.88:
            dv = self.pick_var("dict")
            if dv:
                return r.choice([f"{dv}.k = {self.e_int(2)}", f"{dv}['m'] = {self.e_str(2)}"])
        if k < 0.92 and self.in_func:
            return f"if {self.e_bool(2)} {{ return {self.e_int(2)} }}" if r.random() < 0.8 else f"if {self.e_bool(2)} {{ return }}"
        return f"this.{self.fresh('t')} = {self.e_int(2)}" if r.random() < 0.3 else self.expr("int", 1)

    def block(self, d):
        return "{ " + self.stmts(self.r.randint(1, 2), d) + " }"

    def stmts(self, n, d):
        return "; ".join(self.stmt(d) for _ in range(n))

    def program(self, nstmts=None):
        n = nstmts or self.r.randint(1, 5)
        sep = self.r.choice(["; ", "\n", ";\n"])
        src = sep.join(self.stmt(0) for _ in range(n))
        return src, "".join(sorted(self.cfg))
