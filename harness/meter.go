package main

import (
	"strings"
	"fmt"
	"time"

	ds "github.com/sealdice/dicescript"
)

// meter <cfg> <seed> <hexsrc> : one Run with the work meter (hook verif_meter_on.go) around it.
// "<ok VALUE|err MSG|panic MSG> ops=N disp=D rolls=R fates=F ms=T"   (value WITHOUT walking variables: no rendering cost)
func meterLine(t []string) (out string) {
	if len(t) != 4 {
		return "bad-op"
	}
	cfg, ok := parseCfg(t[1])
	src, ok2 := unhx(t[3])
	if !ok || !ok2 {
		return "bad-op"
	}
	vm, ok := newVM(cfg, t[2])
	if !ok {
		return "bad-op"
	}
	ds.VerifMeterReset()
	t0 := time.Now()
	head := ""
	func() {
		defer func() {
			if r := recover(); r != nil {
				head = "panic " + hx(fmt.Sprint(r))
			}
		}()
		if err := vm.Run(src); err != nil {
			head = "err " + hx(err.Error())
			return
		}
		// scalar results only: rendering a container is not part of the evaluation's work
		switch vm.Ret.TypeId {
		case ds.VMTypeInt, ds.VMTypeFloat, ds.VMTypeString, ds.VMTypeNull:
			s := vm.Ret.ToString()
			if len(s) > 200 {
				s = fmt.Sprintf("%s...(%d)", s[:200], len(s))
			}
			head = "ok " + hx(s)
		default:
			head = "ok " + hx("<"+vm.Ret.GetTypeName()+">")
		}
		head += " rest=" + hx(vm.RestInput)
	}()
	d, r, f := ds.VerifMeterRead()
	return fmt.Sprintf("%s ops=%d disp=%d rolls=%d fates=%d ms=%d", head, vm.NumOpCount, d, r, f, time.Since(t0).Milliseconds())
}

func init() {
	handlers["meter"] = meterLine
}

// rxloop <cfg> <seed> <hexexpr> <n> : a host routine that evaluates a text through RunExpr up to n times and carries on when it fails
// (only the budget error stops it). Reports how many evaluations were tolerated, the counter and the metered work.
func rxLoopLine(t []string) (out string) {
	if len(t) != 5 {
		return "bad-op"
	}
	cfg, ok := parseCfg(t[1])
	src, ok2 := unhx(t[3])
	n, ok3 := atoi(t[4])
	if !ok || !ok2 || !ok3 {
		return "bad-op"
	}
	vm, ok := newVM(cfg, t[2])
	if !ok {
		return "bad-op"
	}
	ds.VerifMeterReset()
	done, failed, stopped := 0, 0, "no"
	texts := strings.Split(src, "\n---\n") // several texts: evaluated in turn
	return safely(func() string {
		for i := int64(0); i < n; i++ {
			_, err := vm.RunExpr(texts[int(i)%len(texts)], (i/int64(len(texts)))%2 == 0)
			if err != nil {
				if err.Error() == "允许算力上限" {
					stopped = "budget"
					break
				}
				failed++
			}
			done++
		}
		d, r, f := ds.VerifMeterRead()
		return fmt.Sprintf("done=%d failed=%d stopped=%s ops=%d disp=%d rolls=%d fates=%d", done, failed, stopped, vm.NumOpCount, d, r, f)
	})
}

func init() { handlers["rxloop"] = rxLoopLine }
