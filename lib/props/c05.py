"""C05 — dice are unbiased for every number of sides.

Proof: DS/Props/C05.lean (roll64 = first accepted word mod n; every face has the same number of
accepted words; successive dice use disjoint segments).  Tie: `roll` stream — the real Roll() on
chosen PCG states against the Lean model, with first words forced onto every boundary of the
acceptance rule (ceiling-1, ceiling, MaxUint64-n, MaxUint64-n+1, MaxUint64) and forced rejections.
"""
from lib import pcg
from lib.common import Run, hx, unhx, lean_child

M64 = (1 << 64) - 1
MAXN = (1 << 63) - 1     # every positive side count an int64 holds (2^63-1 used to roll 0)


def gen_cases(run, tier):
    r = run.rng
    cases = []
    small_max = 4096 if tier == "thorough" else 400
    reps = 6 if tier == "thorough" else 2
    # 1. small n exhaustively, random states
    for n in range(1, small_max + 1):
        for _ in range(reps):
            cases.append((r.getrandbits(128), n, "small"))
    # 2. boundary first words for many n (small, near powers of two, quantile buckets up to 2^63-2)
    ns = set()
    for k in range(1, 63):
        for d in (-2, -1, 0, 1, 2, 3):
            n = (1 << k) + d
            if 1 <= n <= MAXN:
                ns.add(n)
    for j in range(2, 40):          # just above 2^64/j: rejection probability about 1/j
        for d in (1, 2, 7):
            n = (1 << 64) // j + d
            if n <= MAXN:
                ns.add(n)
    nq = 400 if tier == "thorough" else 60
    for _ in range(nq):
        bits = r.randint(2, 63)
        n = r.getrandbits(bits) | (1 << (bits - 1))
        if 1 <= n <= MAXN:
            ns.add(n)
    ns.update([MAXN, MAXN - 1, 3, 5, 6, 7, 10, 100])
    for n in sorted(ns):
        hi = r.getrandbits(64)
        c = pcg.ceiling(n)
        firsts = [0, 1, n - 1, n, c - 1, c, c + 1, M64 - n, M64 - n + 1, M64, M64 - 1]
        for w in firsts:
            if 0 <= w <= M64:
                st = pcg.state_for_first_word(w, hi)
                cases.append((st, n, "boundary"))
        # forced multi-rejection: search a state whose first words are all rejected (cheap when p≈1/j)
        if not pcg.is_pow2(n) and (M64 - c) * 64 > M64:
            for _ in range(4):
                st = r.getrandbits(128)
                for _ in range(200):
                    ws, _s = pcg.words(st, 2)
                    if ws[0] >= c and ws[1] >= c:
                        cases.append((st, n, "double-reject"))
                        break
                    st = r.getrandbits(128)
    # 3. side counts at and beyond the documented limit, zero, negative
    for n in (0, MAXN, -1, -5, -(1 << 62), -(1 << 63)):
        cases.append((r.getrandbits(128), n, "limit"))
        cases.append((pcg.state_for_first_word(M64, 12345), n, "limit"))
    return cases


def main(tier):
    run = Run("C05", tier, module="DS.Props.C05", props_file="DS/Props/C05.lean",
              extra_files=["DS/Proofs/RollLemmas.lean", "DS/Model/Roll.lean", "DS/Model/Rng.lean"])
    if run.prepare():
        run.proofs()
        cases = gen_cases(run, tier)
        lines = [f"roll {st:032x} {n} 0" for st, n, _ in cases]

        def describe(ln, a, b):
            t = ln.split()
            st, n = int(t[1], 16), int(t[2])
            if n <= 0:
                return ""
            ws, _ = pcg.words(st, 4)
            c = pcg.ceiling(n)
            return (f"n={n} first words={ws} ceiling={c} pow2={pcg.is_pow2(n)}; the model takes the first word < "
                    f"{'2^64' if pcg.is_pow2(n) else c} mod n + 1; a different acceptance rule makes faces "
                    f"1..{(M64 + 1) % n if not pcg.is_pow2(n) else 0} more likely than the rest")

        res = run.diff_stream("roll", lines, describe=describe)
        # independent sanity oracle on the Go side (range) + distribution accounting
        for (st, n, kind), (ln, g, m, verdict) in zip(cases, res):
            run.count("kind." + kind)
            if n >= 1 and n <= MAXN:
                ws, _ = pcg.words(st, 3)
                rej = 0
                if not pcg.is_pow2(n):
                    c = pcg.ceiling(n)
                    while rej < 3 and ws[rej] >= c:
                        rej += 1
                run.count(f"rejections.{rej}")
                if rej > 0 or kind == "boundary":
                    run.nontriv((n, st))
                try:
                    val = int(g.split()[0])
                except Exception:
                    val = None
                if val is None or not (1 <= val <= n):
                    run.violation("face-out-of-range", {"case": ln, "implementation": g, "model": m})
        for c in cases[:3] + [c for c in cases if c[2] == "double-reject"][:2] + [c for c in cases if c[2] == "boundary"][:2]:
            run.sample({"stream": "roll", "state": f"{c[0]:032x}", "sides": c[1], "kind": c[2]})
        # successive dice of ONE evaluation are independent draws: a list of single dice, some of them clamped (min / max), from a seed;
        # the expected faces come from the model's Roll chained over the generator state (the clamp of one term is not the next one's)
        r = run.rng
        progs = []
        for _ in range(400 if tier == "thorough" else 120):
            terms = []
            for _t in range(r.randint(2, 4)):
                n = r.choice((2, 3, 6, 10, 20, 100, 1000, 7, 12))
                k = r.random()
                if k < 0.3 and n > 2:
                    terms.append((n, "min", r.randint(max(2, n // 2), n)))
                elif k < 0.5 and n > 2:
                    terms.append((n, "max", r.randint(1, max(1, n // 3))))
                else:
                    terms.append((n, "", 0))
            progs.append((r.getrandbits(128), terms))
        states = [st for st, _ in progs]
        faces = [[] for _ in progs]
        for pos in range(4):
            idx = [i for i, (_, ts) in enumerate(progs) if len(ts) > pos]
            outm = lean_child().run([f"roll {states[i]:032x} {progs[i][1][pos][0]} 0" for i in idx])
            for i, o in zip(idx, outm):
                v, nst = o.split()
                faces[i].append(int(v))
                states[i] = int(nst, 16)
        vlines = []
        for (st, ts), fs in zip(progs, faces):
            src = "[" + ", ".join(f"d{n}{m}{a if m else ''}" for n, m, a in ts) + "]"
            vlines.append(f"runseq -,L30000 {st:032x} {hx(src)}")
        for (ln, g), (st, ts), fs, endst in zip(run.go_only("vm-successive-dice", vlines), progs, faces, states):
            exp = [max(f, a) if m == "min" else (min(f, a) if m == "max" else f) for f, (n, m, a) in zip(fs, ts)]
            want = "ok [" + " ".join(f"i{x}" for x in exp) + "] "
            run.nontriv(("vm-dice", ln))
            if not g.startswith(want) or f"seed={endst:032x}" not in g:
                run.violation("vm-successive-dice:not-the-model's-independent-draws",
                              {"case": ln, "source": unhx(ln.split()[3]).decode(), "seed": f"{st:032x}", "expected_faces": exp,
                               "expected_seed_after": f"{endst:032x}", "implementation": g[:300]})
        # the seed a context reports is the state of the generator its dice come from — also for a context that was never seeded
        # (it draws from the shared source): restoring the reported bytes into another context replays the dice
        ul = [f"unseededseed {hx(src)}" for src in ("10d1000000000", "d100 + d100", "[d20, d20, d20]", "3d6")]
        for ln, g in run.go_only("unseeded-seed", ul):
            run.nontriv(("unseeded", ln))
            if not g.startswith("same "):
                run.violation("unseeded-context:reported-seed-does-not-replay-its-dice", {"case": ln, "source": unhx(ln.split()[1]).decode(), "implementation": g[:300]})
        # the word stream itself (PCG tie) — short, the rng stream proper belongs to C06
        lines2 = [f"rng {run.rng.getrandbits(128):032x} 4" for _ in range(50)]
        run.diff_stream("rng", lines2)
    return run.finish(
        trusted=["Lean 4.33 kernel", "axioms: propext, Classical.choice, Quot.sound (Mathlib count lemma)",
                 "correspondence harness (Go) and line driver (Lean compiler/runtime)",
                 "statistical quality of PCG-128 itself (modelled exactly, not verified)",
                 "_roll32 is unreachable on 64-bit builds (IntTypeSize == 8) and is not modelled"],
        rule="cases = (PCG state, sides): small n exhaustively with random states; for ~500 n (around every power of two, "
             "just above 2^64/j, random quantile buckets up to 2^63-2) states constructed so the FIRST word is each "
             "boundary of the acceptance rule; states with two forced rejections. non-trivial = first word on a boundary "
             "or at least one rejected word; distinct by (n, state)",
        assumptions=["words produced by PCG are uniform and independent (trusted)",
                     "theorems are about the Lean model; the model is tied to roll_func.go by the roll stream"])
