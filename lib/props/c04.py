"""C04 — every dice outcome is legal and equals what its displayed dice imply.

Proof: DS/Props/C04.lean (per-family specs over all parameters and word streams).
Tie: roll streams (RollCommon/CoC/Fate/WoD/DoubleCross on seeded PCG sources vs the Lean model).
Search/oracle: lib/diceoracle.py recomputes the game rule from the dice the IMPLEMENTATION shows;
VM-syntax legality: illegal parameter tuples must produce an error.
"""
import itertools

from lib import diceoracle as O
import re as _re_top
from lib.common import Run, hx, unhx


def opt(v):
    return "-" if v is None else str(v)


def gen_common(r, tier):
    cases = []
    times_l = range(1, 13) if tier == "thorough" else (1, 2, 3, 5, 8, 12)
    sides_l = (1, 2, 3, 6, 10, 100)
    keeps = (0, 1, 2, 3, 4)
    ks = range(0, 14) if tier == "thorough" else (0, 1, 2, 3, 7, 13)
    mm = (None, -1, 0, 1, 3, 7)
    modes = (0, 0, -1, 1)
    for t, s, keep in itertools.product(times_l, sides_l, keeps):
        for k in (ks if keep else (0,)):
            picks = [(None, None)] + [(r.choice(mm), r.choice(mm)) for _ in range(3 if tier == "thorough" else 1)]
            for dmin, dmax in picks:
                cases.append((r.getrandbits(128), t, s, dmin, dmax, keep, k, k, r.choice(modes)))
    big = [2**31 - 1, 2**31, 2**32 + 1, 2**62 + 3, 2**63 - 2, 2**63 - 1, 6148914691236517206]
    for s in big:
        for t in (1, 3):
            cases.append((r.getrandbits(128), t, s, None, None, r.choice(keeps), 1, 2, r.choice((0, 1, -1))))
    for t in (0, -1, -5):
        cases.append((r.getrandbits(128), t, 6, None, None, r.choice(keeps), 1, 1, 0))
    for keep in (5, 7, -1):
        cases.append((r.getrandbits(128), 4, 6, None, None, keep, 2, 2, 0))
    # low != high (only one of them is consulted per mode)
    for keep in keeps:
        cases.append((r.getrandbits(128), 6, 10, None, None, keep, 2, 4, 0))
    return cases


def gen_pool(r, tier, dc):
    cases = []
    n = 600 if tier == "thorough" else 120
    for _ in range(n):
        points = r.choice((2, 3, 6, 10, 10, 10, 20, 100))
        mode = r.choice((0, 0, 0, -1, 1))
        pool = r.choice((1, 2, 3, 5, 10, 14, 15, 16, 30, 60))
        if mode == 1:
            add = r.choice([points + 1, points + 5] + ([] if dc else [0]))
        elif mode == -1:
            add = r.choice([2, 3, points, points + 1] + ([] if dc else [0]))
        else:
            lo = max(2, points - points // 2)       # P(add) <= ~0.5 so the roll terminates quickly
            add = r.choice([lo, points, points + 1, min(points, lo + 1)] + ([] if dc else [0]))
        if dc:
            cases.append((r.getrandbits(128), add, pool, points, mode))
        else:
            thr = r.choice((1, 2, points // 2 + 1, points, points + 1))
            cases.append((r.getrandbits(128), add, pool, points, thr, r.choice((0, 1)), mode))
    # long chains: a small pool (dice are shown) whose add line is low, so that the total passes the 100 dice up to which dice are shown
    for _ in range(n // 4):
        points = r.choice((10, 10, 6, 20))
        add = r.choice((2, 2, 3))
        pool = r.choice((8, 10, 12, 14))
        if dc:
            cases.append((r.getrandbits(128), add, pool, points, 0))
        else:
            cases.append((r.getrandbits(128), add, pool, points, r.choice((points // 2 + 1, points)), 1, 0))
    return cases


ILLEGAL = [  # (cfg, source) — every one of these must be rejected with an error
    ("-", "0d6"), ("-", "(-1)d6"), ("-", "2d0"), ("-", "2d(-3)"), ("-", "2d6k0"), ("-", "2d6kl(-1)"),
    ("-", "2d6dh0"), ("-", "2d6dl(-2)"), ("-", "(1.5)d6"), ("-", "('a')d6"), ("-", "2d(1.5)"), ("-", "2d('x')"), ("-", "2d6k(1.5)"),
    ("-", "(0)d(0)"), ("-", "3d6q0"), ("-", "2d6max(1.5)"), ("-", "2d6min(1.5)"), ("-", "2d6min('a')"), ("-", "3d6k2max([1])"), ("-", "2dmax(2.5)"), ("-", "d6min(null)"),
    ("c", "b(-1)"), ("c", "p(-3)"),
    ("w", "0a5"), ("w", "20001a5"), ("w", "3a1"), ("w", "3a5m0"), ("w", "3a5k0"), ("w", "3a5q0"), ("w", "(-2)a5"),
    ("d", "0c5"), ("d", "3c1"), ("d", "3c5m0"), ("d", "20001c5"), ("d", "(-1)c5"), ("d", "3c0"),
]
LEGAL = [("-", "2d6"), ("-", "4d6k3"), ("-", "d20"), ("-", "3d6min2max5"), ("w", "5a8"), ("w", "5a8k6m9"), ("d", "4c8"),
         ("d", "4c8m12"), ("c", "b2"), ("c", "p3"), ("c", "b"), ("f", "f")]


def main(tier):
    run = Run("C04", tier, module="DS.Props.C04", props_file="DS/Props/C04.lean",
              extra_files=["DS/Proofs/RollLemmas.lean", "DS/Proofs/DiceLemmas.lean", "DS/Model/Roll.lean"])
    if run.prepare():
        run.proofs()
        r = run.rng
        # ---- RollCommon
        cc = gen_common(r, tier)
        lines = [f"common {st:032x} {t} {s} {opt(a)} {opt(b)} {k} {lo} {hi} {m}" for st, t, s, a, b, k, lo, hi, m in cc]
        res = run.diff_stream("common", lines)
        for c, (ln, g, m, v) in zip(cc, res):
            st, t, s, a, b, k, lo, hi, mode = c
            f = g.split()
            if len(f) != 3 or f[0] == "panic":
                run.violation("common:crash", {"case": ln, "implementation": g})
                continue
            why = O.check_common(t, s, a, b, k, lo, hi, mode, int(f[0]), unhx(f[1]).decode())
            run.count(f"common.keep{k}")
            if k and t > 1 and s > 1:
                run.nontriv(("common", t, s, a, b, k, lo, mode, st))
            if why and s <= 2**63 - 2 and s > 0:
                run.violation("common:" + why, {"case": ln, "implementation": g, "decoded_text": unhx(f[1]).decode(),
                                                "clause": why})
        run.sample({"stream": "common", "case": lines[len(lines) // 2]})
        # ---- CoC
        n = 1500 if tier == "thorough" else 300
        cocs = [(r.getrandbits(128), r.choice((0, 1)), r.choice((0, 1, 1, 2, 2, 3, 5, 9)), r.choice((0, 0, 0, -1, 1))) for _ in range(n)]
        cocs += [(r.getrandbits(128), b, -1, 0) for b in (0, 1)]
        lines = [f"coc {st:032x} {b} {k} {m}" for st, b, k, m in cocs]
        res = run.diff_stream("coc", lines)
        for c, (ln, g, m, v) in zip(cocs, res):
            st, b, k, mode = c
            f = g.split()
            if len(f) != 3:
                run.violation("coc:crash", {"case": ln, "implementation": g})
                continue
            why = O.check_coc(b == 1, k, mode, int(f[0]), unhx(f[1]).decode())
            if k > 0 and mode == 0:
                run.nontriv(("coc", st, b, k))
            if why:
                run.violation("coc:" + why, {"case": ln, "implementation": g, "decoded_text": unhx(f[1]).decode(), "clause": why})
        run.sample({"stream": "coc", "case": lines[0]})
        # ---- Fate
        fates = [(r.getrandbits(128), r.choice((0, 0, 0, -1, 1))) for _ in range(400 if tier == "thorough" else 100)]
        lines = [f"fate {st:032x} {m}" for st, m in fates]
        res = run.diff_stream("fate", lines)
        for c, (ln, g, m, v) in zip(fates, res):
            f = g.split()
            if len(f) != 3:
                run.violation("fate:crash", {"case": ln, "implementation": g})
                continue
            why = O.check_fate(int(f[0]), unhx(f[1]).decode())
            if c[1] == 0:
                run.nontriv(("fate", c[0]))
            if why or not (-4 <= int(f[0]) <= 4):
                run.violation("fate:" + str(why), {"case": ln, "implementation": g})
        # ---- WoD
        wods = gen_pool(r, tier, dc=False)
        lines = [f"wod {st:032x} {a} {p} {pt} {th} {ge} {m}" for st, a, p, pt, th, ge, m in wods]
        res = run.diff_stream("wod", lines, go_timeout=60)
        for c, (ln, g, m, v) in zip(wods, res):
            st, a, p, pt, th, ge, mode = c
            f = g.split()
            if len(f) != 5:
                run.violation("wod:crash", {"case": ln, "implementation": g})
                continue
            why = O.check_wod(a, p, pt, th, ge == 1, mode, int(f[0]), int(f[1]), int(f[2]), unhx(f[3]).decode())
            if int(f[2]) > 1:
                run.nontriv(("wod", st, a, p, pt, th, ge))
            run.count("wod.rounds%d" % min(int(f[2]), 5))
            if why:
                run.violation("wod:" + why, {"case": ln, "implementation": g, "decoded_text": unhx(f[3]).decode(), "clause": why})
        run.sample({"stream": "wod", "case": lines[0]})
        # ---- Double Cross
        dcs = gen_pool(r, tier, dc=True)
        # directed: sides above 10 so that a non-critical die can exceed 10 after a critical one
        for _ in range(200 if tier == "thorough" else 60):
            dcs.append((r.getrandbits(128), r.choice((15, 18, 19)), r.choice((2, 3, 4, 6)), 20, 0))
        lines = [f"dc {st:032x} {a} {p} {pt} {m}" for st, a, p, pt, m in dcs]
        res = run.diff_stream("dc", lines, go_timeout=60)
        for c, (ln, g, m, v) in zip(dcs, res):
            st, a, p, pt, mode = c
            f = g.split()
            if len(f) != 5:
                run.violation("dc:crash", {"case": ln, "implementation": g})
                continue
            why = O.check_dc(a, p, pt, mode, int(f[0]), int(f[1]), int(f[2]), unhx(f[3]).decode())
            if int(f[2]) > 1:
                run.nontriv(("dc", st, a, p, pt))
            run.count("dc.rounds%d" % min(int(f[2]), 5))
            if why:
                run.violation("dc:" + why, {"case": ln, "implementation": g, "decoded_text": unhx(f[3]).decode(), "clause": why})
        run.sample({"stream": "dc", "case": lines[-1]})
        # ---- pool terms through the VM syntax: `PaA` followed by any sequence of k / q / m suffixes (repeated, in any order — the last of
        #      each kind wins, and k / q share the threshold) rolls exactly what the exported function rolls with those parameters
        wl, wm = [], []
        for _ in range(400 if tier == "thorough" else 100):
            pool, add = r.randint(1, 12), r.randint(5, 11)
            pts, th, ge = 10, 8, 1
            src = f"{pool}{r.choice('aA')}{add}"
            for _k in range(r.randint(0, 4)):
                kind = r.choice("kqm")
                v = r.randint(2, 10)
                src += r.choice([kind, kind.upper()]) + str(v)
                if kind == "m":
                    pts = v
                else:
                    th, ge = v, (1 if kind == "k" else 0)
            if add <= 1 or pts < 1:
                continue
            st = f"{r.getrandbits(128):032x}"
            wl += [f"runseq w,L30000 {st} {hx(src)}", f"wod {st} {add} {pool} {pts} {th} {ge} 0"]
            wm.append((src, add, pool, pts, th, ge))
        wo = run.go_only("vm-pool-terms", wl, go_timeout=60)
        for i, (src, add, pool, pts, th, ge) in enumerate(wm):
            a, b = wo[2 * i][1], wo[2 * i + 1][1]
            ma = _re_top.match(r"ok i(-?\d+) d=(\S+) ", a)
            fb = b.split()
            if not ma or len(fb) < 4:
                run.count("vm-pool-terms.not-ok")
                continue
            run.nontriv(("vm-pool", src))
            dt = unhx(ma.group(2)).decode("utf-8", "replace")
            want_txt = unhx(fb[3]).decode("utf-8", "replace")
            if ma.group(1) != fb[0] or want_txt not in dt:
                run.violation("vm-pool-term:differs-from-the-rule-with-its-parameters", {"source": src, "parameters": {"add_line": add, "pool": pool, "points": pts, "threshold": th,
                                                                                          "success_when": ">=" if ge else "<="},
                                                                                          "through_the_vm": a[:300], "exported_function": b[:200]})
        # ---- a pool term inside the operand of another pool term: each is rolled with ITS OWN parameters (the inner one first, from the same
        #      stream): the pool operand `(PaA…)aB…` and the add-line operand `Pa(QaB…)…`
        nl, nm = [], []
        for _ in range(120 if tier == "thorough" else 40):
            def sfx():
                pts, th, ge, txt = 10, 8, 1, ""
                for _k in range(r.randint(0, 2)):
                    kind = r.choice("kqm"); v = r.randint(2, 9); txt += kind + str(v)
                    if kind == "m":
                        pts = v
                    else:
                        th, ge = v, (1 if kind == "k" else 0)
                return txt, pts, th, ge
            p1, a1 = r.randint(3, 9), r.randint(6, 11)
            s1, pts1, th1, ge1 = sfx()
            a2 = r.randint(6, 11)
            s2, pts2, th2, ge2 = sfx()
            st = f"{r.getrandbits(128):032x}"
            inner = f"{p1}a{a1}{s1}"
            nl.append(f"runseq w,L30000 {st} {hx('(' + inner + ')a' + str(a2) + s2)}")
            nl.append(f"wod {st} {a1} {p1} {pts1} {th1} {ge1} 0")
            nm.append((f"({inner})a{a2}{s2}", a2, pts2, th2, ge2))
        no = run.go_only("vm-nested-pool-terms", nl, go_timeout=60)
        second = []
        for i, (src, a2, pts2, th2, ge2) in enumerate(nm):
            fb = no[2 * i + 1][1].split()
            second.append(f"wod {fb[4]} {a2} {fb[0]} {pts2} {th2} {ge2} 0" if len(fb) >= 5 and fb[0].lstrip("-").isdigit() and int(fb[0]) >= 1 else None)
        so = run.go_only("vm-nested-pool-terms-2", [x for x in second if x], go_timeout=60)
        it = iter(so)
        for i, (src, a2, pts2, th2, ge2) in enumerate(nm):
            a = no[2 * i][1]
            if second[i] is None:
                continue
            b = next(it)[1]
            ma = _re_top.match(r"ok i(-?\d+) ", a)
            fb = b.split()
            run.nontriv(("nested-pool", src))
            if not ma or len(fb) < 1 or ma.group(1) != fb[0]:
                run.violation("vm-pool-term:nested-term-leaks-its-parameters", {"source": src, "through_the_vm": a[:300], "inner_then_outer_by_the_exported_function": [no[2 * i + 1][1][:160], b[:160]]})
        # ---- dice terms through the VM syntax: every annotated term of a sum must obey its own rule
        import re as _re
        progs = []
        for _ in range(600 if tier == "thorough" else 150):
            terms = []
            for _t in range(r.randint(2, 4)):
                t = r.choice((1, 1, 2, 3, 4, 6))
                sd = r.choice((1, 2, 4, 6, 10, 20))
                keep, k = 0, 0
                dl = r.choice("dddD")
                src = (str(t) if t > 1 or r.random() < 0.5 else "") + dl + str(sd)
                if t > 1 and r.random() < 0.6:
                    keep = r.choice((1, 2, 3, 4))
                    # every spelling of the modifier, with the count written or left out (then it is 1)
                    sp = r.choice({1: ["kl", "q", "Q"], 2: ["kh", "k", "K"], 3: ["dl"], 4: ["dh"]}[keep])
                    if r.random() < 0.35:
                        k = 1
                        src += sp
                    else:
                        k = r.randint(1, t + 1)
                        src += sp + (str(k) if r.random() < 0.8 else f"({k})")
                elif t == 1 and src[0] in "dD" and r.random() < 0.25:
                    # dY优势 / dY劣势: two dice, keep the higher / lower
                    adv = r.choice(["优势", "優勢", "劣势", "劣勢"])
                    src += adv
                    t, keep, k = 2, (2 if adv in ("优势", "優勢") else 1), 1
                dmin = dmax = None
                mmx = r.random()      # the grammar accepts at most one of min / max per term
                if mmx < 0.3:
                    dmin = r.randint(1, sd + 1)
                    src += "min" + str(dmin)
                elif mmx < 0.6:
                    dmax = r.randint(1, sd + 1)
                    src += "max" + str(dmax)
                shown = src
                # (a face-less die needs its count written when modifiers follow: `dmin2` is an identifier)
                if r.random() < 0.15 and "势" not in src and "勢" not in src and src[:1].isdigit():
                    # face-less die: the default face count (100) is used and the annotation names the die in normalised form
                    sd_txt = str(sd)
                    i = src.index(sd_txt, src.lower().index("d") + 1)
                    mods = src[i + len(sd_txt):]
                    if mods[:1].isdigit() or mods[:1] == "(":
                        pass          # a count-less modifier would swallow... not the case: the face count came first
                    src = src[:i] + mods
                    if not (mods[:1].isdigit()):
                        sd = 100
                        shown = (f"{t}D100" if t > 1 else "D100") + ({1: "kl", 2: "kh", 3: "dl", 4: "dh"}[keep] + str(k) if keep else "")
                        if dmin is not None:
                            dmin = min(dmin, 101); shown += "min" + str(dmin)
                        if dmax is not None:
                            shown += "max" + str(dmax)
                    else:
                        src = shown          # keep the faced form
                terms.append((src, t, sd, dmin, dmax, keep, k, shown))
            progs.append(terms)
        lines = [f"runseq L30000 {r.getrandbits(128):032x} {hx(' + '.join(t[0] for t in terms))}" for terms in progs]
        out = run.go_only("vm-terms", lines, go_timeout=60)
        for terms, (ln, g) in zip(progs, out):
            mo = _re.match(r"ok i(-?\d+) d=(\S+) ", g)
            if not mo:
                run.violation("vm-terms:not-ok", {"source": " + ".join(t[0] for t in terms), "implementation": g})
                continue
            detail = unhx(mo.group(2)).decode()
            pat = " \\+ ".join(r"(-?\d+)\[" + _re.escape(t[7]) + r"(?:=([^\]]*))?\]" for t in terms)
            md = _re.fullmatch(pat, detail)
            if not md:
                run.violation("vm-terms:detail-shape", {"source": " + ".join(t[0] for t in terms), "detail": detail})
                continue
            total = 0
            for i, (src, t, sd, dmin, dmax, keep, k, shown) in enumerate(terms):
                val = int(md.group(2 * i + 1))
                txt = md.group(2 * i + 2)
                if txt is None:
                    txt = str(val)
                why = O.check_common(t, sd, dmin, dmax, keep, k, k, 0, val, txt)
                if why:
                    run.violation("vm-term:" + why, {"source": " + ".join(x[0] for x in terms), "term": src,
                                                     "detail": detail, "clause": why})
                total += val
            if total != int(mo.group(1)):
                run.violation("vm-terms:sum", {"source": " + ".join(t[0] for t in terms), "detail": detail, "value": mo.group(1)})
            run.nontriv(("vmterms", ln))
        run.sample({"stream": "vm-terms", "case": " + ".join(t[0] for t in progs[0])})
        # ---- legality through the VM syntax (implementation only)
        lines = [f"runseq {cfg},L30000 {r.getrandbits(128):032x} {hx(src)}" for cfg, src in ILLEGAL + LEGAL]
        out = run.go_only("legality", lines, go_timeout=60)
        for (cfg, src), (ln, g) in zip(ILLEGAL + LEGAL, out):
            illegal = (cfg, src) in ILLEGAL
            is_err = g.startswith("err ")
            is_ok = g.startswith("ok ")
            run.nontriv(("legal", cfg, src))
            if g.startswith("panic") or g.startswith("died"):
                # crashes on ill-typed operands are C01's subject; here they still are "not rejected with an error"
                run.known_finding("C04-illegal-operand-panics", {"source": src, "cfg": cfg, "implementation": g})
            elif illegal and not is_err:
                run.violation("illegal-parameters-accepted", {"source": src, "cfg": cfg, "implementation": g})
            elif not illegal and not is_ok:
                run.violation("legal-parameters-rejected", {"source": src, "cfg": cfg, "implementation": g})
    return run.finish(
        trusted=["Lean 4.33 kernel", "axioms: propext, Classical.choice, Quot.sound",
                 "Go harness + Lean driver (correspondence)", "PCG statistical quality",
                 "sort.Slice modelled as a stable merge sort (equal integers are indistinguishable)"],
        rule="RollCommon: grid times x sides x keep/drop mode x k x min/max x mode (thorough: exhaustive times 1..12, k 0..13) "
             "plus sides near 2^31/2^32/2^62/2^63; CoC/Fate/WoD/DC random parameter tuples with seeded PCG states; "
             "non-trivial = a keep/drop term with several multi-sided dice, a CoC roll with extra dice, a pool roll "
             "with more than one round; VM-syntax legality list",
        assumptions=["sums are stated under NoOverflow in the theorems; the streams compare wrapped totals"])
