"""C17 — extension points are transparent unless they act.

Proof: DS/Props/C17.lean — on the PEG-engine model extended with the custom-dice trio (PrepareCustomDice predicate /
ConsumeCustomDice / CommitCustomDice) over an abstract matcher `custom : offset → matched length`: `never_matches_transparent`
(a matcher that never matches leaves every parse — result, offset, ParserData, emission trace — exactly as with no matcher
registered, for any grammar, input, fuel) and the trio's contract `custom_consumes_exactly` / `custom_emits_once`.
Tie: peg stream with registered regex parsers (match lengths are computed per offset and handed to the model).
Oracle on the implementation: for generated programs x sets of registered parsers (never-matching regexes, stream parsers that
read ahead and reset, a parser that reports a zero-length match) x identity load/store hooks x identity detail rewriters,
value, process text, Matched/Rest, variables, final seed are identical to the run with nothing registered; when a custom
syntax matches, the handler runs exactly once per evaluation of the operand with exactly the matched text and groups, and
mutating the groups it was handed does not change the next evaluation.
"""
import re

from lib.common import Run, hx, unhx, go_child, lean_child
from lib.proggen import ProgGen
from lib.props.c08 import STRUCT

NEVER = ["re:" + hx(p) for p in ["@@never", "ZZZ\\d+", "\\x00", "QQ(\\d+)Q", "(?:zz)+zz!", "Z*", "(QQ)?", "\\b", "^", "(?:)"]] + ["spnever:0", "spnever:1", "spnever:3", "spnever:40", "spzero"]
IDENT = ["hooks", "rewr", "hooks,rewr", "hooks2", "hooks2,rewr", "gnil", "gnil,hooks2"]
SCOPES = ["x=5; &a=x+1; a", "x=5; &a=x+d1; a + a", "func f(q){ q + x }; x = 3; f(2) + x", "x=2; &a = x*2; &b = a + x; b + a", "x=1; func g(){ &c = x + 1; c + x }; g()",
          "y = 4; func f(){ func g(){ y + 1 }; g() + y }; f()", "&a = abs(0-3) + 1; a", "x = [1,2]; &a = x[0] + x.len(); a"]


def strip_calls(o):
    return re.sub(r" calls=\S+", "", re.sub(r" rerun=\S+", "", o))


def main(tier):
    run = Run("C17", tier, module="DS.Props.C17", props_file="DS/Props/C17.lean",
              extra_files=["DS/Model/Peg.lean"])
    if run.prepare():
        run.proofs()
        r = run.rng
        # ---------- (1) transparency
        progs = []
        for s in STRUCT:
            progs.append((s, "wcfd"))
        for s in SCOPES:
            for _ in range(3):
                progs.append((s, "-"))
        for _ in range(2500 if tier == "thorough" else 500):
            g = ProgGen(r, illtyped=0.05)
            src, c2 = g.program()
            progs.append((src, c2 or "-"))
        lines0, linesX, specs = [], [], []
        for src, cfg in progs:
            seed = f"{r.getrandbits(128):032x}"
            k = r.random()
            spec = ",".join(r.sample(NEVER, r.randint(1, 3))) if k < 0.5 else (r.choice(IDENT) if k < 0.8 else r.choice(IDENT) + "," + ",".join(r.sample(NEVER, 2)))
            lines0.append(f"custom {cfg},L30000 {seed} - {hx(src)}")
            linesX.append(f"custom {cfg},L30000 {seed} {spec} {hx(src)}")
            specs.append(spec)
        o0 = go_child(line_timeout=20).run(lines0)
        oX = go_child(line_timeout=20).run(linesX)
        st = run.streams.setdefault("transparent", {"cases": 0, "agree": 0, "impl_only": True})
        for (src, cfg), spec, a, b in zip(progs, specs, o0, oX):
            st["cases"] += 1
            run.evaluations += 1
            run.count("transparent." + ("hooks2" if "hooks2" in spec else "hooks" if "hooks" in spec or "rewr" in spec else "parsers"))
            a2, b2 = strip_calls(a), strip_calls(b)
            # a dict printed inside the process text follows Go's map order: compare everything but that text then
            md = re.search(r" d=(\S+)", a2)
            dtext = unhx(md.group(1)).decode("utf-8", "replace") if md and md.group(1) != "-" else ""
            if a2 == b2:
                st["agree"] += 1
                run.nontriv(("tr", src, cfg, spec))
            else:
                run.violation("extension-not-transparent", {"source": src, "cfg": cfg, "registered": spec, "plain": a[:500], "with_extensions": b[:500]})
            if "calls=-" not in b:
                run.violation("handler-ran-without-a-match", {"source": src, "cfg": cfg, "registered": spec, "with_extensions": b[:500]})
        # ---------- (2) acting: a matching custom term, in every operand position
        pat = "E(\\d+)"
        spec = "re:" + hx(pat)
        ctx_templates = ["{T}", "{T}+1", "1+{T}", "({T})+1", "[{T},2]", "abs({T})", "{T} ? 1 : 2", "0 ? 1 : {T}", "x=[1,2,3]; x[{T}-{T}]", "{{'k':{T}}}.k", "`a{{{T}}}b`",
                         "1 || {T}", "0 || {T}", "0 && {T}", "null ?? {T}", "-{T}", "{T}*{T}", "x={T}; x+x", "&cv={T}; cv+cv", "func fn(pa){{ pa+{T} }}; fn({T})",
                         "if {T} {{ y=1 }}; y", "i=0; while i<3 {{ i=i+1; {T} }}", "2d6+{T}", "({T})d6k1 > 0", "[{T}..{T}]", "{T};{T}", "  {T}  ", "{T} x", "^st力量:{T}"]
        acting = []
        # (the matched text is ASCII in one syntax and multi-byte in the others: lengths are bytes in one place and runes in another)
        for apat, head in (("E(\\d+)", "E"), ("力量(\\d+)", "力量"), ("暴击(\\d+)x", "暴击")):
            for tpl in ctx_templates:
                for n in r.sample(range(0, 99), 2 if head == "E" else 1):
                    term = f"{head}{n}" + ("x" if head == "暴击" else "")
                    acting.append((tpl.replace("{T}", term), tpl, n, apat, term))
        lines = [f"custom -,L30000 {1:032x} re:{hx(apat)},spnever:2 {hx(src)}" for src, tpl, n, apat, term in acting]
        out = go_child(line_timeout=20).run(lines)
        for (src, tpl, n, apat, term), o in zip(acting, out):
            run.evaluations += 1
            run.count("acting.cases")
            rep = {"source": src, "registered": apat, "implementation": o[:500]}
            if not o.startswith("ok "):
                # a custom term is an operand like a number: the same template with a number must fail too
                run.count("acting.error")
                plain = go_child().run([f"custom -,L30000 {1:032x} - {hx(tpl.replace('{T}', '7'))}"])[0]
                if plain.startswith("ok "):
                    run.violation("custom-term-not-accepted-as-operand", dict(rep, with_number_instead=plain[:200]))
                continue
            m = re.search(r" calls=(\S+)", o)
            calls = unhx(m.group(1)).decode("utf-8", "replace").split("\x1e") if m and m.group(1) != "-" else []
            rr = re.search(r" rerun=(\S+)", o)
            bad = [c for c in calls if c != f"re:{apat}|{term}\x1f{n}|<nil>"]
            if bad:
                run.violation("handler-received-wrong-text-or-groups", dict(rep, calls=calls))
            elif rr and rr.group(1) != "err" and int(rr.group(1)) != len(calls):
                run.violation("handler-count-differs-between-evaluations", dict(rep, first=len(calls), second=rr.group(1)))
            else:
                run.nontriv(("act", src))
                run.count("acting.calls", len(calls))
        # ---------- (2b) the same with a host-supplied STREAM parser that leaves Groups[0] blank: the VM fills in the matched text
        acting2 = []
        for tpl in ctx_templates:
            n = r.randint(0, 999)
            acting2.append((tpl.replace("{T}", f"#{n}"), tpl, n))
        out2 = go_child(line_timeout=20).run([f"custom -,L30000 {1:032x} sphash,spnever:3 {hx(src)}" for src, tpl, n in acting2])
        for (src, tpl, n), o in zip(acting2, out2):
            run.evaluations += 1
            run.count("acting-stream.cases")
            rep = {"source": src, "registered": "stream parser '#' digits (Groups[0] left blank, Groups[1] = digits, payload = digits)", "implementation": o[:500]}
            if not o.startswith("ok "):
                run.count("acting-stream.error")
                plain = go_child().run([f"custom -,L30000 {1:032x} - {hx(tpl.replace('{T}', '7'))}"])[0]
                if plain.startswith("ok "):
                    run.violation("custom-term-not-accepted-as-operand", dict(rep, with_number_instead=plain[:200]))
                continue
            m = re.search(r" calls=(\S+)", o)
            calls = unhx(m.group(1)).decode("utf-8", "replace").split("\x1e") if m and m.group(1) != "-" else []
            rr = re.search(r" rerun=(\S+)", o)
            bad = [c for c in calls if c != f"sphash|#{n}\x1f{n}|{n}"]
            md = re.search(r" d=(\S+)", o)
            dtext = unhx(md.group(1)).decode("utf-8", "replace") if md and md.group(1) != "-" else ""
            if bad:
                run.violation("handler-received-wrong-text-or-groups", dict(rep, calls=calls, expected_each=f"sphash|#{n}\x1f{n}|{n}"))
            elif not calls and "st" not in tpl and "0 &&" not in tpl and "1 ||" not in tpl and "0 ? 1" not in tpl.replace("0 ? 1 : {T}", ""):
                run.violation("handler-never-ran-for-a-matching-term", dict(rep))
            elif rr and rr.group(1) != "err" and int(rr.group(1)) != len(calls):
                run.violation("handler-count-differs-between-evaluations", dict(rep, first=len(calls), second=rr.group(1)))
            elif calls and tpl in ("{T}+1", "1+{T}", "({T})+1", "{T}*{T}", "-{T}") and f"[#{n}=#{n}]" not in dtext:
                run.violation("process-text-lost-the-matched-text", dict(rep, process_text=dtext))
            else:
                run.nontriv(("act2", src))
                run.count("acting-stream.calls", len(calls))
        # ---------- (2e) a stream parser that refills ONE groups buffer on every match: each compiled operand keeps the groups it was matched with
        sg, sgm = [], []
        for tpl, order in (("{A} + {B}", "AB"), ("[{A}, {B}, {A}]", "ABA"), ("{A} * {B} - {A}", "ABA"), ("x = {A}; y = {B}; x + y", "AB"),
                           ("func fn(pa){ pa + {B} }; fn({A})", "AB"), ("{A} ? {B} : {A}", "AB"), ("`{{A}}-{{B}}`", "AB"), ("{B} - {A} + {B}", "BAB")):
            a1, a2, b1, b2 = (r.randint(1, 99) for _ in range(4))
            A, B = f"C{a1}T{a2}", f"C{b1}T{b2}"
            src = tpl.replace('{A}', A).replace('{B}', B)
            sg.append(f"custom -,L30000 {1:032x} spgroups {hx(src)}")
            want = [f"spgroups|{A}\x1f{a1}\x1f{a2}" if ch == "A" else f"spgroups|{B}\x1f{b1}\x1f{b2}" for ch in order]
            sgm.append((src, want))
        for (src, want), o in zip(sgm, go_child(line_timeout=20).run(sg)):
            run.evaluations += 1
            run.count("groups-buffer.cases")
            m = re.search(r" calls=(\S+)", o)
            calls = unhx(m.group(1)).decode("utf-8", "replace").split("\x1e") if m and m.group(1) != "-" else []
            if calls != want:
                run.violation("handler-received-another-operand's-groups", {"source": src, "registered": "stream parser C<d>T<d> reusing its groups buffer",
                                                                             "calls": calls, "expected_calls": want, "implementation": o[:400]})
            else:
                run.nontriv(("spgroups", src))
        # ---------- (2e') several stream parsers, the earlier ones reading ahead and declining with a nil result: the later one starts where the
        #            operand starts; and values the host serves as globals read through every load path
        for tpl in ctx_templates[:20]:
            n = r.randint(0, 999)
            src = tpl.replace("{T}", f"#{n}")
            a_ = go_child(line_timeout=20).run([f"custom -,L30000 {1:032x} sphash {hx(src)}", f"custom -,L30000 {1:032x} spnil:3,spnil:1,sphash {hx(src)}"])
            run.evaluations += 1
            if strip_calls(a_[0]) != strip_calls(a_[1]) or re.search(r" calls=(\S+)", a_[0]).group(1) != re.search(r" calls=(\S+)", a_[1]).group(1):
                run.violation("declining-stream-parser-shifts-the-next-one", {"source": src, "with_declining_parsers_first": a_[1][:400], "alone": a_[0][:400]})
            else:
                run.nontriv(("spnil", src))
        import json as _json2
        gdoc2 = "gjson:" + hx(_json2.dumps({"力量": {"t": 0, "v": 60}, "gcv": {"t": 5, "v": {"expr": "力量 + 1"}}, "gfn": {"t": 8, "v": {"expr": "pa * 2", "name": "gfn", "params": ["pa"]}}}, ensure_ascii=False))
        hp = ["gcv", "load('gcv')", "load('力量') + load('gcv')", "dd = {}; dd.k = gcv; dd.k", "dd = {'q': 1}; dd.q = gcv + dd.q; dd.q", "[gcv][0]", "`{gcv}`", "loadRaw('gcv')", "gfn(gcv)",
              "load('gfn')(2)", "x = load('gcv'); x + gcv", "this.y = gcv; y", "func f(){ load('gcv') }; f()", "&lc = load('gcv') + 1; lc"]
        ho = go_child(line_timeout=20).run([f"custom -,L30000 {1:032x} {gdoc2} {hx(pp)}" for pp in hp] + [f"custom -,L30000 {1:032x} {gdoc2},hooks {hx(pp)}" for pp in hp])
        for i, pp in enumerate(hp):
            run.evaluations += 1
            for o in (ho[i], ho[len(hp) + i]):
                if o.startswith(("panic", "died")):
                    run.violation("host-served-value-crashes-a-load-path", {"program": pp, "host_globals": "力量 = 60, gcv = computed `力量 + 1`, gfn = function", "implementation": o[:400]})
            if strip_calls(ho[i]).split(" ops=")[0] != strip_calls(ho[len(hp) + i]).split(" ops=")[0]:
                run.violation("extension-not-transparent", {"source": pp, "registered": "identity hooks + host globals", "plain": ho[i][:400], "with_extensions": ho[len(hp) + i][:400]})
            else:
                run.nontriv(("hostload", pp))
        # ---------- (2f) a load hook that RENAMES (strips the prefix 困难): the program with prefixed names means what the program with the
        #            plain names means — for script variables, names served by the host's global table, and builtins
        import json as _json
        gdoc = "gjson:" + hx(_json.dumps({"力量": {"t": 0, "v": 60}, "敏捷": {"t": 0, "v": 45}, "gcv": {"t": 5, "v": {"expr": "力量 + 1"}}}, ensure_ascii=False))
        rn, rnm = [], []
        for body in ("{P}力量 + 1", "{P}力量 * {P}敏捷", "{P}gcv + {P}力量", "lv = 5; {P}lv + {P}力量", "{P}floor(2.5) + {P}敏捷", "func fn(pa){ {P}pa + {P}力量 }; fn(2)",
                     "&lc = {P}力量 + 2; {P}lc", "{P}nosuch ?? 3", "[{P}力量, {P}敏捷].sum()", "`{{P}力量}`", "{P}abs(0 - {P}力量)"):
            rn.append(f"custom -,L30000 {1:032x} hookren,{gdoc} {hx(body.replace('{P}', '困难'))}")
            rn.append(f"custom -,L30000 {1:032x} {gdoc} {hx(body.replace('{P}', ''))}")
            rnm.append(body)
        ro = go_child(line_timeout=20).run(rn)
        for i, body in enumerate(rnm):
            a, b = ro[2 * i].split(), ro[2 * i + 1].split()
            run.evaluations += 1
            run.count("rename-hook.cases")
            if a[:2] != b[:2] and not (a[0] != "ok" and b[0] != "ok"):
                run.violation("load-hook-rename-not-honoured", {"program_with_prefixed_names": body.replace("{P}", "困难"), "with_renaming_hook": ro[2 * i][:300],
                                                                "program_with_plain_names": body.replace("{P}", ""), "without_hook": ro[2 * i + 1][:300]})
            else:
                run.nontriv(("rename", body))
        # ---------- (2d) groups: one entry per capture group of the pattern, in order, "" for a group that took no part in the match
        gp = [("E(\\d+)?(k\\d+)?(!)?", ["Ek3", "E12", "E12k3!", "E!", "E", "E7!", "Ek9!"]), ("#(a)?(b)?(c)?#", ["##", "#a#", "#b#", "#c#", "#ac#", "#abc#"]),
              ("Z(?:(x)|(y))(\\d*)", ["Zx", "Zy", "Zx12", "Zy3"]), ("Q(\\d+)(?:-(\\d+))?", ["Q5", "Q5-7"])]
        gl, gm = [], []
        for gpat, terms in gp:
            rx = re.compile(gpat)
            for term in terms:
                for tpl in ("{T}", "1+{T}", "[{T},{T}]", "abs({T})"):
                    src = tpl.replace("{T}", term)
                    mm = rx.fullmatch(term)
                    want = "\x1f".join([mm.group(0)] + [(g if g is not None else "") for g in mm.groups()])
                    gl.append(f"custom -,L30000 {1:032x} re:{hx(gpat)} {hx(src)}")
                    gm.append((gpat, term, src, want))
        go_ = go_child(line_timeout=20).run(gl)
        for (gpat, term, src, want), o in zip(gm, go_):
            run.evaluations += 1
            run.count("groups.cases")
            m = re.search(r" calls=(\S+)", o)
            calls = unhx(m.group(1)).decode("utf-8", "replace").split("\x1e") if m and m.group(1) != "-" else []
            pre = "re:" + gpat.replace("\\\\", "\\") + "|"
            got = [(c[len(pre):].rsplit("|", 1)[0] if c.startswith(pre) else c) for c in calls]
            if not o.startswith("ok ") or not calls:
                run.violation("custom-term-not-accepted-as-operand", {"source": src, "registered": gpat, "implementation": o[:400]})
            elif any(x != want for x in got):
                run.violation("handler-received-wrong-text-or-groups", {"source": src, "registered": gpat, "groups_received": [x.split("\x1f") for x in got],
                                                                        "groups_expected": want.split("\x1f")})
            else:
                run.nontriv(("groups", gpat, src))
        # ---------- (2c) a handler that fails (error / nil result): the evaluation ends in an error, in every operand position
        failing = [(tpl.replace("{T}", f"E{r.randint(0, 99)}"), tpl, kind) for tpl in ctx_templates for kind in ("reerr", "renil")]
        outf = go_child(line_timeout=20).run([f"custom -,L30000 {1:032x} {kind}:{hx(pat)} {hx(src)}" for src, tpl, kind in failing])
        for (src, tpl, kind), o in zip(failing, outf):
            run.evaluations += 1
            run.count("failing-handler.cases")
            m = re.search(r" calls=(\S+)", o)
            ncalls = len(unhx(m.group(1)).decode("utf-8", "replace").split("\x1e")) if m and m.group(1) != "-" else 0
            if o.startswith("died") or o.startswith("panic"):
                run.violation("failing-handler-crashes-the-vm", {"source": src, "handler": kind, "implementation": o[:400]})
            elif o.startswith("ok ") and ncalls > 0:
                run.violation("failing-handler-yields-a-value", {"source": src, "handler": kind, "implementation": o[:400]})
            else:
                run.nontriv(("failh", src, kind))
        # ---------- (3) the returned value is used by copy: a handler that reuses and mutates one result object
        shared = [("E1+E1", "i3", "1[E1=E1]+2[E1=E1]"), ("[E1,E1,E1]", "[i1 i2 i3]", None), ("x=E1; y=E1; x*10+y", "i12", None), ("E1; E1", "i2", None),
                  ("&cv=E1; cv*100+cv", "i102", None)]
        pat_hex = hx(pat)
        out = go_child().run([f"custom -,L30000 {1:032x} reshared:{pat_hex} {hx(src)}" for src, _, _ in shared])
        for (src, want, dwant), o in zip(shared, out):
            run.evaluations += 1
            run.count("by-copy.cases")
            f = o.split()
            md = re.search(r" d=(\S+)", o)
            dtext = unhx(md.group(1)).decode("utf-8", "replace") if md and md.group(1) != "-" else ""
            if not o.startswith("ok " + want + " ") or (dwant is not None and dwant not in dtext):
                run.violation("handler-result-not-used-by-copy", {"source": src, "expected_value": want, "expected_process_text": dwant, "implementation": o[:400], "process_text": dtext})
            else:
                run.nontriv(("copy", src))
        # ---------- (4) tie: the engine model with the custom-dice trio vs the real parser with a registered regex
        import re as _re
        pats = ["E(\\d+)", "#\\d+", "[X-Z]\\d", "@(\\w+)@", "E"]
        pcases = []
        for tpl in ctx_templates + ["({T}", "[{T},", "{T}{T}", "{T} {T}", "a{T}", "{T}a", "1{T}", "{T}1", "'{T}'", "`{T}`", "({T})({T})", "x={T}{T}", "^st力量{T}", "^st{T}:1"]:
            pat = r.choice(pats)
            term = {"E(\\d+)": "E%d" % r.randint(0, 99), "#\\d+": "#%d" % r.randint(0, 99), "[X-Z]\\d": r.choice("XYZ") + str(r.randint(0, 9)),
                    "@(\\w+)@": "@ab%d@" % r.randint(0, 9), "E": "E"}[pat]
            src = tpl.replace("{T}", term)
            pcases.append((pat, src))
        for _ in range(600 if tier == "thorough" else 150):
            g = ProgGen(r, illtyped=0.03)
            src, c2 = g.program(r.randint(1, 2))
            pat = r.choice(pats)
            term = {"E(\\d+)": "E7", "#\\d+": "#12", "[X-Z]\\d": "Y3", "@(\\w+)@": "@q@", "E": "E"}[pat]
            # splice the term in place of some number
            nums = list(_re.finditer(r"\b\d+\b", src))
            if nums:
                m = r.choice(nums)
                src = src[:m.start()] + term + src[m.end():]
            pcases.append((pat, src))
        glines, mlines = [], []
        for pat, src in pcases:
            b = src.encode("utf-8")
            rx = _re.compile(pat.encode())
            tbl = []
            for off in range(len(b)):
                mm = rx.match(b, off)
                if mm and mm.end() > off:
                    tbl.append(f"{off}:{mm.end() - off}")
            glines.append(f"pegtracec - {hx(pat)} {hx(src)}")
            mlines.append(f"pegtracec - {','.join(tbl) if tbl else '-'} {hx(src)}")
        go_o = go_child().run(glines)
        le_o = lean_child().run(mlines)
        ps = run.streams.setdefault("peg-custom", {"cases": 0, "agree": 0})
        for (pat, src), a, b in zip(pcases, go_o, le_o):
            ps["cases"] += 1
            run.evaluations += 1
            if a == b:
                ps["agree"] += 1
                run.nontriv(("pegc", pat, src))
            else:
                run.violation("correspondence:peg-custom", {"stream": "peg-custom", "pattern": pat, "source": src, "implementation": a[:300], "model": b[:300]})
        run.sample({"oracle": "transparent", "line": linesX[0][:200], "out": oX[0][:200]})
        run.sample({"oracle": "acting", "line": lines[0][:200], "out": out[0][:200]})
        # the syntaxes a context has registered hold for every text it compiles — also the ones compiled late: RunExpr, computed values and
        # functions restored from JSON (their bodies arrive as text)
        ll = [f"customlazy {r.getrandbits(128):032x} {hx(b_)}" for b_ in ("E5 + 1", "E7", "(E5)+E6", "[E1, E2].sum()", "E3 * 2 + d1", "`{E4}`", "E9 > 3 ? E1 : E2")]
        for ln, g in run.go_only("custom-lazy-bodies", ll):
            run.nontriv(("customlazy", ln))
            outs = g.rsplit(" calls=", 1)[0].split(" | ")
            if len(outs) != 4 or len(set(outs)) != 1 or outs[0].startswith("err:"):
                run.violation("custom-term-lost-in-a-text-compiled-late", {"body": unhx(ln.split()[2]).decode(), "direct | RunExpr | restored computed | restored function": g[:400]})
    return run.finish(
        trusted=["Lean 4.33 kernel", "axioms: propext, Classical.choice, Quot.sound", "Go harness (registers the parsers / hooks, logs handler calls) + Lean driver",
                 "regular-expression matching itself (Go regexp) is outside the model: the model takes the match length per offset as a parameter"],
        rule="structural corpus + generated programs x {1-3 never-matching regex / stream parsers incl. read-ahead-and-reset and zero-length match, identity hooks, "
             "identity detail rewriters}; a matching term E<n> in 29 operand positions (parentheses, lists, calls, indexes, ternary, short-circuit, templates, "
             "loops, functions, computed values, dice operands, st values) with two evaluations of each compiled program",
        assumptions=[])
