"""C13 — string literals and templates reproduce text exactly.

Proof: DS/Props/C13.lean — for every Unicode text the literal written with the documented escapes scans back to
exactly that text (plain styles unconditionally; template styles when the text is free of the delimiter; the
backtick limitation is a proved witness = known finding).  Tie: strscan stream (the real parser against the
Lean model of strPartN/strEscape on arbitrary literal bodies).  Templates: oracle on the implementation —
value = concatenation of segments and hole values, nesting up to the limit, assignments visible afterwards.
"""
import re

from lib.common import Run, hx, unhx, lean_child

ALPHA = list("ab '\"`{}\\\n\r\t\x0c\x1e") + ["力", "é", "😀", "n", "r", "t", "f", "x", "0"]
QS = {"1": "'", "2": "\"", "3": "`", "4": "\x1e"}


def rand_text(r, n):
    return "".join(r.choice(ALPHA) for _ in range(r.randint(0, n)))


def py_escape(q, s):
    """independent copy of the documented escaping (Python side, for the template oracle)"""
    out = []
    for c in s:
        if c == "\\":
            out.append("\\\\")
        elif c == q and q in "'\"":
            out.append("\\" + c)
        elif c == "\n":
            out.append("\\n")
        elif c == "\r":
            out.append("\\r")
        elif c == "\t":
            out.append("\\t")
        elif c == "\x0c":
            out.append("\\f")
        elif q in "`\x1e" and c in "{}":
            out.append("\\" + c)
        else:
            out.append(c)
    return "".join(out)


def gen_template(r, depth, env):
    """returns (source, expected string); env = dict of variables assigned so far (mutated)"""
    q = r.choice("`\x1e")
    src, val = [q], []
    for _ in range(r.randint(1, 4)):
        k = r.random()
        if k < 0.4:
            seg = rand_text(r, 5).replace(q, "")
            src.append(py_escape(q, seg)); val.append(seg)
        elif k < 0.6:
            a, b = r.randint(0, 9), r.randint(0, 9)
            ws = r.choice(["", " ", "\n"])
            src.append("{" + ws + f"{a}+{b}" + ws + "}"); val.append(str(a + b))
        elif k < 0.7:
            v = r.randint(0, 99)
            name = r.choice(["vx", "vy", "vz"])
            env[name] = v
            src.append(r.choice(["{%", "{"]) + f" {name} = {v} " + ("%}" if src[-1].endswith("{%") or False else "}"))
            # fix delimiter pairing
            if src[-1].startswith("{%"):
                src[-1] = "{% " + f"{name} = {v}" + " %}"
            val.append(str(v))
        elif k < 0.74 and val:
            # a hole whose code leaves no value: contributes the empty string
            src.append(r.choice(["{% ; %}", "{% ;; %}", "{% // nothing\n %}", "{% ; // c\n %}"])); val.append("")
        elif k < 0.8:
            vals = [r.randint(0, 9) for _ in range(r.randint(2, 4))]
            src.append("{% " + "; ".join(map(str, vals)) + " %}"); val.append(str(vals[-1]))
        elif k < 0.9 and depth > 0:
            s2, v2 = gen_template(r, depth - 1, env)
            if r.random() < 0.3:
                # a statement block inside a hole that evaluates a nested template (with holes of its own): the block contributes
                # nothing, the nested text shows up where the variable is used
                tv = "tq" + str(depth)
                blk = r.choice(["if 1 { %s = %s }", "if 0 { 1 } else { %s = %s }", "i9 = 0; while i9 < 1 { i9 = i9 + 1; %s = %s }"]) % (tv, s2)
                src.append("{% " + blk + " %}"); val.append("")
                seg = rand_text(r, 3).replace(q, "")
                src.append(py_escape(q, seg)); val.append(seg)
                src.append("{" + tv + "}"); val.append(v2)
            else:
                src.append("{" + s2 + "}"); val.append(v2)
        else:
            t = rand_text(r, 4).replace("'", "").replace("\\", "")
            src.append("{'" + t.replace("\n", "\\n").replace("\r", "\\r").replace("\t", "\\t").replace("\x0c", "\\f") + "'}")
            val.append(t)
    src.append(q)
    return "".join(src), "".join(val)


def nested(depth):
    s, v = "1", "1"
    for i in range(depth):
        s = "`" + f"<{i}" + "{" + s + "}" + ">`"
        v = f"<{i}{v}>"
    return s, v


def main(tier):
    run = Run("C13", tier, module="DS.Props.C13", props_file="DS/Props/C13.lean", extra_files=["DS/Model/StrLit.lean"])
    if run.prepare():
        run.proofs()
        r = run.rng
        # ---- (1) documented literals of random texts: Lean writes the literal, the implementation must read it back
        texts = [rand_text(r, 12) for _ in range(4000 if tier == "thorough" else 800)]
        texts += ["", "'", "\"", "\\", "\\\\", "{}", "it's \"x\"\n", "\x1e", "`", "a\\'b", "\\n", "{%", "%}"]
        cases = [(qk, t) for t in texts for qk in QS]
        esc = lean_child().run([f"strescape {qk} {hx(t)}" for qk, t in cases])
        lines = []
        keep = []
        for (qk, t), e in zip(cases, esc):
            if QS[qk] in "`\x1e" and QS[qk] in t:
                run.count("literal.delimiter-in-template-text")
                continue
            lines.append(f"strscan {qk} {e}")
            keep.append((qk, t))
        out = run.go_only("literal", lines, go_timeout=300)
        for (qk, t), (ln, g) in zip(keep, out):
            run.nontriv(("lit", qk, t))
            if g != "ok " + hx(t):
                run.violation("literal-does-not-reproduce-text", {"delimiter": QS[qk], "text": t, "program_hex": ln.split()[2],
                                                                  "implementation": g, "expected": "ok " + hx(t)})
        run.sample({"oracle": "literal", "delimiter": "'", "text": texts[3]})
        # ---- (2) arbitrary literal bodies: the real parser against the Lean model of the scanning rules
        bodies = []
        for _ in range(6000 if tier == "thorough" else 1500):
            qk = r.choice("1234")
            q = QS[qk]
            parts = []
            for _ in range(r.randint(0, 8)):
                if r.random() < 0.35:
                    c = r.choice(ALPHA)
                    parts.append("\\" + c)
                else:
                    c = r.choice(ALPHA)
                    if c == q or c == "\\":
                        continue
                    parts.append(c)
            bodies.append((qk, "".join(parts)))
        lines = [f"strscan {qk} {hx(b)}" for qk, b in bodies]
        pre = lean_child().run(lines)
        sel = [ln for ln, m in zip(lines, pre) if m.startswith("ok ") or m == "err"]
        run.count("scan.skipped-early-or-hole", len(lines) - len(sel))
        res = run.diff_stream("strscan", sel, go_timeout=300)
        for ln, g, m, v in res:
            run.nontriv(ln)
        # the known limitation, probed explicitly
        out = run.go_only("backtick", [f"strscan 3 {hx('a' + chr(92) + '`b')}"])
        if out and not out[0][1].startswith("ok " + hx("a`b")):
            run.known_finding("C13-template-delimiter-not-escapable", {"program": "`a\\`b`", "implementation": out[0][1]})
        # ---- (3) templates
        progs = []
        for _ in range(1500 if tier == "thorough" else 300):
            env = {}
            src, val = gen_template(r, 3, env)
            check = "; [" + ", ".join(env) + "]" if env else ""
            want_env = "[" + " ".join(f"i{env[k]}" for k in env) + "]" if env else None
            progs.append((src, val, check, want_env))
        for d in (1, 5, 19, 20):
            s, v = nested(d)
            progs.append((s, v, "", None))
        # the string form of a hole's value does not depend on the other holes: the same container shown twice, a container and its
        # own member, a hole that builds the container a later hole shows, shared sub-containers
        for q in "`\x1e":
            progs += [(f"xs=[1,2]; {q}{{xs}}|{{xs}}{q}", "[1, 2]|[1, 2]", "", None), (f"mp={{'k':1}}; {q}{{mp}} and {{mp}}{q}", "{'k': 1} and {'k': 1}", "", None),
                      (f"xs=[1,[2]]; {q}{{xs}}{{xs[1]}}{{xs}}{q}", "[1, [2]][2][1, [2]]", "", None), (f"{q}{{% xs=[3] %}}{{xs}}{{xs}}{q}", "[3][3][3]", "", None),
                      # (a sub-container that occurs twice INSIDE one value is printed as [...] the second time by ToString itself,
                      #  template or not: that is the string form of that value, not the template's doing)
                      (f"ys=[5]; xs=[ys,7]; {q}{{xs}}{{ys}}{{xs}}{q}", "[[5], 7][5][[5], 7]", "", None),
                      (f"xs=[1]; {q}a{{xs}}{q} + {q}b{{xs}}{q}", "a[1]b[1]", "", None), (f"xs=[1]; {q}{{ {q}{{xs}}{q} }}{{xs}}{q}", "[1][1]", "", None),
                      (f"xs=[]; {q}{{xs}}{{xs}}{{ {{}} }}{{ {{}} }}{q}", "[][]{}{}", "", None)]
        progs += [("`a{% if 1 { x = `b{1}` } %}c{x}`", "acb1", "", None), ("`a{% if 1 { x = `b{1}` }; 5 %}c`", "a5c", "", None),
                  ("`{% if 0 { 1 } %}|{% if 1 { y = `{2}` } %}|{y}`", "||2", "", None), ("`<{% i=0; while i<2 { i=i+1; z=`{i}` } %}>{z}`", "<>2", "", None),
                  # break / continue out of a hole of a template inside the loop: the hole is closed on the way out, however often
                  ("i=0; while i<25 { i=i+1; `{% if i>0 { continue } %}` }; `{i}|{% if 1 { 2 } %}|`", "25||", "", None),
                  ("i=0; s=''; while i<30 { i=i+1; s=`{s}{% if i%2==0 { continue }; i %}` }; s", "1357911131517192123252729", "", None),
                  ("i=0; while i<40 { i=i+1; `{ `{% if i>22 { break } %}` }` }; `<{i}>`", "<23>", "", None),
                  # embedded code never disturbs the part already assembled: a later hole that modifies a container an earlier hole showed
                  ("a = [1]; `{a}{% a[0] = 2 %}`", "[1]2", "", None), ("a = [1]; `{a}|{% a.push(5); a %}|{a}`", "[1]|[1, 5]|[1, 5]", "", None),
                  ("mp = {'k':1}; `{mp}{% mp.k = 2 %}{mp}`", "{'k': 1}2{'k': 2}", "", None), ("a = [[1]]; `{a}{% a[0].push(2) %}{a[0]}`", "[[1]][1, 2][1, 2]", "", None),
                  ("a = [1]; `<{ `{a}` }{% a.pop() %}{a}>`", "<[1]1[]>", "", None),
                  ("`{% if 1 { `{1}` } %}{% if 1 { 2 } %}`", "", "", None), ("`{ `{ `{1}` }` }{% if 1 { 3 } %}`", "1", "", None)]
        lines = [f"runseq L100000 - {hx(src)}" + (f" {hx(check[2:])}" if check else "") for src, val, check, we in progs]
        out = run.go_only("templates", lines, go_timeout=300)
        for (src, val, check, we), (ln, g) in zip(progs, out):
            run.nontriv(("tpl", src))
            parts = g.split(" | ")
            m = re.match(r"ok s(\S+) ", parts[0])
            got = unhx(m.group(1)).decode("utf-8", "replace") if m else None
            if got != val:
                run.violation("template-value", {"source": src, "expected": val, "implementation": parts[0][:300]})
            elif we is not None:
                m2 = re.match(r"ok (\[[^\]]*\]) ", parts[1]) if len(parts) > 1 else None
                if not m2 or m2.group(1) != we:
                    run.violation("template-assignment-not-visible", {"source": src, "expected_vars": we, "implementation": parts[1][:200] if len(parts) > 1 else g})
        # a result the host keeps (the object Run handed out, also stored as a variable) is not disturbed by assembling later templates
        # on the same VM — "a template does not disturb a value it only reads"
        kl = []
        for _ in range(60 if tier == "thorough" else 20):
            env = {}
            s1, v1 = gen_template(r, 1, env)
            s2, v2 = gen_template(r, 1, env)
            kl.append(f"retkeep L100000 - {hx(s1)} {hx('`<{kept}|' + '`' + ' + ' + s2)} attr")
            kl.append(f"retkeep L100000 - {hx(s1)} {hx(s2)}")
        for ln, g in run.go_only("retkeep", kl, go_timeout=120):
            m = re.match(r"before=(\S+) after=(\S+) var=(\S+) \| ", g)
            if not m:
                run.count("retkeep.other")
                continue
            run.nontriv(("retkeep", ln))
            if m.group(1) != m.group(2) or (m.group(3) != "-" and m.group(3) != m.group(1)):
                t = ln.split()
                run.violation("kept-result-changed-by-a-later-template", {"first": unhx(t[3]).decode("utf-8", "replace"), "second": unhx(t[4]).decode("utf-8", "replace"),
                                                                          "kept_before": unhx(m.group(1)).decode("utf-8", "replace"),
                                                                          "kept_after": unhx(m.group(2)).decode("utf-8", "replace"), "implementation": g[:300]})
        # nesting beyond the limit must be an error, not a crash (C01/C07 decide the crash; here: no wrong value)
        s, v = nested(23)
        out = run.go_only("templates-deep", [f"runseq L100000 - {hx(s)}"])
        if out and out[0][1].startswith("ok") and ("s" + hx(v)) not in out[0][1]:
            run.violation("template-deep-wrong-value", {"source": s, "implementation": out[0][1][:200]})
        run.sample({"oracle": "template", "source": progs[0][0], "expected": progs[0][1]})
    return run.finish(
        trusted=["Lean 4.33 kernel", "axioms: propext, Classical.choice, Quot.sound", "Go harness + Lean driver",
                 "template concatenation and hole isolation are validated on the implementation, not yet proved on a VM model"],
        rule="texts over an alphabet of quotes, backslashes, braces, CR/LF/TAB/FF, U+001E, multi-byte characters x four delimiters "
             "(documented literal must evaluate to the text); arbitrary literal bodies with random escape sequences (parser vs "
             "model); templates with text segments, expression holes, statement holes, assignments, nested templates up to 3 "
             "deep plus directed nesting 1/5/19/20; distinct by (delimiter, text) / program",
        assumptions=["scan models strPart1-4/strEscape; which rule set the parser applies is tied by the strscan stream"])
