"""C01 — no input can crash the host: the public API is total.

Proof: DS/Props/C01.lean — on the Lean model of the VM (bug-compatible, explicit `.panic site` outcomes): the operator
layer never panics for any pair of values; every panic outcome of the dispatch loop comes from the finite list
KnownPanicSites, each of which needs a malformed program (stack underflow, missing jump operand, block/dice/detail state
that no earlier instruction set up) — i.e. is excluded for verified code (C08).
Tie: `vm` stream — programs compiled by the real parser are executed by the real VM and, from their bytecode dump, by
the Lean VM; outcome, value, process text, op counter, generator state and variables are compared.
Search: the whole API sequence (Parse, GetAsmText, Run, re-run, ToString/ToRepr, GetDetailText x2, Matched/RestInput,
Attrs.ToJSON) under recover in a child process with watchdog, over generated programs, ill-typed operand programs,
adversarial nesting/sizes, mutated and random byte inputs, all flag/mode/budget configurations, sequences on one VM.
"""
import re

from lib.common import Run, hx, unhx
from lib.proggen import ProgGen

CORPUS = [  # (cfg, [sources...]) — past crashes and their neighbours; runs first
    # keep-highest / keep-lowest on arrays with non-numeric elements, the count above the number of numeric ones
    ("-", ["[1,'a',2].kh(3)", "[3,'x',2].kh(3)", "['x'].kh()", "[[1,2],7].kl(2)", "[1,'a'].kl(5)", "[null, 2].kh(2)", "['a','b'].kl()", "[1.5,'a',{'k':1}].kh(9)"]),
    # attribute reads / writes on computed values in every state of their lazily created attribute table: never evaluated, evaluated,
    # attribute set, restored; through `&v.x`, `?? `, inside functions and templates
    ("-", ["&v = 1 + 2; &v.x"]), ("-", ["(&v.bonus ?? 10) + v", "&v = 4; (&v.bonus ?? 10) + v"]), ("-", ["&v = 1 + 2; v; &v.x"]), ("-", ["&v = 1; &v.y = 4; &v.x"]),
    ("-", ["&v = 2d6; [&v.a, &v.b]; `{&v.c}`"]), ("-", ["&v = 1; func f(){ &v.q }; f()"]), ("-", ["&v = this.k; &v.k ?? 1; v"]), ("-", ["&v = 1; x = &v; x.zz"]),
    ("-", ["&v = 1", "&v.x", "&v.x = 2", "&v.x"]), ("-", ["&a = 1; &b = &a.x ?? 2; b + (&b.y ?? 3)"]),
    ("c", ["b(1.5)"]), ("c", ["p('a')"]), ("w", ["2a(1.5)"]), ("w", ["(1.5)a5"]), ("w", ["2a5m(1.5)"]), ("w", ["2a5k('x')"]),
    ("d", ["2c(1.5)"]), ("d", ["(1.5)c5"]), ("d", ["2c5m(null)"]),
    ("-", ["[].rand()"]), ("-", ["x=[1,2,3]; x.randSize(5)"]), ("-", ["x=[1,2,3]; x.randSize(-1)"]), ("-", ["[1,2,3].kh('a')"]),
    ("-", ["[1,2,3].kl(1.5)"]), ("-", ["[1]*-1"]), ("-", ["[1,2]*4611686018427387904"]), ("-", ["-3*[1]"]),
    ("-", ["s='abc'; s[3]"]), ("-", ["'力量'[2]"]), ("-", ["''[0]"]),
    ("-", ["if 1 {" * 25 + "1" + "}" * 25]), ("-", ["if 1 {" * 20 + "1" + "}" * 20]), ("-", ["if 1 {" * 21 + "1" + "}" * 21]),
    ("-", ["i=0; while i<30 { i=i+1; if 1 { continue } }"]), ("-", ["i=0; while i<30 { i=i+1; if i>25 { break } }; i"]),
    ("-", ["a=[1]; a.push(a); b=[1]; b.push(b); a==b"]), ("-", ["dd={}; dd.x=dd; ee={}; ee.x=ee; dd==ee"]),
    ("-", ["2d6+3d6", "1 +", "(", "2d6"]), ("-", ["[1,2,3].sum()", "[x,2]"]), ("P200", ["1" + "+1" * 150]),
    ("-", ["^st力量-'a'"]), ("-", ["^st力量+[1]"]), ("-", ["[(0-9223372036854775807-1)..9223372036854775807]"]),
    ("T", ["^st力量-'a'"]), ("T", ["^st力量-0||'abc'"]), ("T", ["^st力量-1 ? 'a' : 'b'"]), ("T", ["^st力量-[1]", "^st力量-null"]), ("T", ["^st力量-=null 敏捷+'a'"]),
    # an st value that only the UNRESTRICTED grammar reads to its end (sides left out, bitwise operators): the look-ahead that picks the
    # edit's spelling runs before the st restrictions are switched on — nothing of what it saw may steer the restricted parse
    ("T", ["^sta=1?3d:2"]), ("T", ["^st力量=1 ? 3d : 2"]), ("T", ["c = 1; x = 2; y = 3", "^st力量=c ? x & y : 2"]), ("T", ["^st力量:2+(3|4)"]), ("T", ["^st力量:2+(3d)"]),
    ("T", ["^st力量=0 ? 3d : 2 敏捷=1 ? 2d : 3"]), ("T", ["^st&手枪=1 ? 3d : 2", "手枪"]), ("T", ["^st力量*2:1 ? 3d : 2"]), ("-", ["^sta=1?3d:2"]),
    # an unterminated string / template where an operand is expected, inside constructs that keep counters and jump offsets of their own
    ("-", ["0 ? 2, 0 ? 3 + `a{1 }"]), ("-", ["0 ? 2, 0 ? 3 + `a{1"]), ("-", ["1 ? 2, 0 ? 3 + 'abc"]), ("-", ["[1, 2 + 'abc"]), ("-", ["5\n`abc{d6}"]), ("-", ["[x,2]\n[x,2]"]),
    ("-", ["f(1, `a{2"]), ("-", ["{'a': 1 + \"b"]), ("-", ["`x{ 1 ? 2, 0 ? 3 + 'q }`"]), ("-", ["if 1 { 0 ? 2, 0 ? 3 + `a{1 }"]),
    ("-", ["[-9223372036854775807..2]"]), ("-", ["[2..-9223372036854775807]"]), ("-", ["[-9223372036854775807..9223372036854775807]"]), ("-", ["[9223372036854775807..-2]"]),
    ("-", ["x=1; i=0; while x { func f() { 1;2;3; break }; i=i+1; if i > 3 { x = 0 } }"]), ("-", ["while 1 { func f() { break } }"]),
    ("-", ["i=0; while i<3 { i=i+1; func f() { continue }; f() }; i"]), ("-", ["i=0; while i<3 { i=i+1; &c = (1; break) }"]), ("-", ["i=0; while i<3 { i=i+1; &c = i; if c > 1 { break } }; i"]),
    ("-", ["func g(){ 1; 2; 3; 4; 5; 6; 7; 8; 3d + d优势 }; func f(){ g() }; f()"]), ("-", ["func g(){ 1+1+1+1+1+1+1+1+2d }; &c = g(); c"]),
    ("-", ["func g(){ 11111111; 22222222; 3d }", "func f(){g()}; f()", "&c = g(); c; c", "`{g()}`"]), ("-", ["func h(){ 'xxxxxxxxxxxxxxxxxxxxxxxx'; d劣势 }; func g(){ h() }; func f(){ g() }; f() + f()"]),
    ("-", ["&cc = 1; &cc.me = &cc; &cc"]), ("-", ["dd = {}; &c1 = 1; &c2 = 2; &c1.o = &c2; &c2.o = &c1; dd.c = &c1; dd"]), ("-", ["zz = {'k': 1}; &cc = this.x; &cc.x = zz; zz.c = &cc; zz"]),
    ("-", ["func f(){f()}; f()"]), ("-", ["&c = d; c"]), ("-", ["func f(){ 2d }; f()"]), ("-", ["&c = d劣势; c; c"]), ("-", ["func f(){ d优势 + 3d }; f(); f()"]), ("-", ["&c = c; c"]), ("-", ["toStr(toStr)"]), ("-", ["x = {}; x.__proto__ = x; x.q"]),
]


def nest_template(n):
    s = "1"
    for _ in range(n):
        s = "`a{" + s + "}`"
    return s


CORPUS += [("-", [nest_template(n)]) for n in (19, 20, 21, 25)]
CORPUS += [("-", ["(" * n + "1" + ")" * n]) for n in (50, 500, 3000)]
CORPUS += [("-", ["[" * n + "1" + "]" * n]) for n in (50, 500)]
CORPUS += [("-", ["1" + "+1" * n]) for n in (100, 3000, 9000)]

ILL = ["1.5", "'a'", "null", "[1]", "{}", "abs", "-1", "0", "99999999999", "(2d6)", "[]", "9223372036854775807", "-9223372036854775807",
       "(0-9223372036854775807-1)", "4611686018427387904", "-4611686018427387905"]


CONT = ["{'a':1}", "{'b':1}", "{'a':1,'b':2}", "{'a':2,'c':2}", "{'a':1,'b':2,'c':3}", "{'x':1,'y':2,'z':3}", "[1,2]", "[1,3]", "[[1],{'a':[2]}]", "[[1],{'b':[2]}]",
        "{'a':{'x':1}}", "{'a':{'y':1}}", "{}", "[]", "{'a':null}", "{'b':null}", "{'a':[1,{'k':2}]}", "{'a':[1,{'j':2}]}"]


# every pair of container shapes under equality (same size / different keys, nested differences, ...): one VM per left operand
CORPUS += [("-", [f"{a} == {b}" for b in CONT] + [f"x={a}; [x] != [{b}]" for b in CONT[:6]]) for a in CONT]


def adversarial(r):
    """programs that feed wrong-typed / extreme operands to every operator family"""
    t = r.choice(ILL)
    u = r.choice(ILL)
    pats = [
        f"b({t})", f"p({t})", f"({t})a({u})", f"3a({t})k({u})", f"3a8m({t})", f"3a8q({t})", f"({t})c({u})", f"3c8m({t})",
        f"({t})d({u})", f"2d6k({t})", f"2d6min({t})", f"2d6max({t})", f"[1,2,3].kh({t})", f"[1,2,3].randSize({t})", f"[1,2,3].push({t}).rand()",
        f"[] * {t}", f"{t} * [1,2]", f"[1,2,3][{t}]", f"'abc'[{t}]", f"'abc'[{t}:{u}]", f"[1,2,3][{t}:{u}]", f"x=[1,2,3]; x[{t}:{u}] = {r.choice(ILL)}; x",
        f"[{t}..{u}]", f"{t} ** {u}", f"{t} / {u}", f"{t} % {u}", f"{t}({u})", f"{t}.{r.choice(['len', 'kh', 'keys', 'compute', 'x'])}()",
        f"x = {t}; x.y = {u}; x", f"x = {t}; x[{u}] = 1; x", f"toInt({t}) + toFloat({u})", f"ceil({t}) + round({u}) + floor({t})",
        f"load({t})", f"store({t}, {u})", f"`{{{t}}}{{% {u} %}}`", f"{t} ? {u} : 1", f"{t} || {u}", f"{t} && {u}", f"{t} ?? {u}",
        f"-{t}", f"+{t}", f"{t} & {u}", f"{t} == {u}", f"{t} < {u}", f"func q(z){{z+1}}; q({t}, {u})", f"func q(z){{z+1}}; q()",
        f"&cv = {t} + 1; cv", f"&cv = d({t}); cv.compute()", f"this.w = {t}; this.w", f"^st力量{t}", f"^st力量+{t}", f"^st力量-{t}", f"^st'a b':{t}",
        f"^st力量*{t}:5", f"^st&力量={t}", f"dir({t})", f"typeId({t})", f"repr({t})", f"d{t}", f"{t}d", f"f + {t}", f"{r.randint(1, 30)}d{r.choice([0, 1, 2**31, 2**62, 2**63-1])}",
        f"{r.choice(CONT)} {r.choice(['==', '!=', '<', '>=', '+', '&&', '??'])} {r.choice(CONT)}", f"x={r.choice(CONT)}; y={r.choice(CONT)}; [x==y, y==x, x!=y, [x]==[y], {{'k':x}}=={{'k':y}}]",
        f"func g(zz){{ {'1; ' * r.randint(0, 12)}{r.choice(['d', '3d', 'd优势', '2d + d劣势'])} }}; func f(){{ g({t}) }}; {r.choice(['f()', '&c = f(); c', '&c = g(1); c + c', '`{f()}`', 'f() + g(2)'])}",
        f"^st力量-{t} 敏捷-={u}", f"^st力量-{t} ? {u} : 1", f"^st力量-0||{t}", f"^st'a'-{t}, b+{u}",
        f"i=0; while i<3 {{ i=i+1; func f(z) {{ {r.choice(['break', 'continue', 'if z { break }', 'while 0 {}; continue', '1; break; 2'])} }}; f({t}) }}; i",
        f"i=0; while i<3 {{ i=i+1; &cv = {r.choice(['(break)', '{t}; break'.replace('{t}', t), 'i'])}; cv }}",
        f"[{r.choice(['-', ''])}{r.choice([2**63-1, 2**63-2, 2**62, 2**63-513, 2**63-512])}..{r.choice(['-', ''])}{r.choice([0, 1, 2, 511, 512, 2**62, 2**63-1])}]",
    ]
    return r.choice(pats)


# ---- operator table: every binary / unary operator and every builtin x every pair of operand kinds (deterministic grid)
GRID_VALS = ["0", "1", "(0-1)", "7", "(0-7)", "4611686018427387904", "9223372036854775807", "0.5", "(0-0.5)", "1.0", "2.0", "1.5", "(0-2.25)", "0.0",
             "''", "'a'", "'ab'", "'1'", "null", "[]", "[1]", "[1,2]", "[1.5]", "{}", "{'a':1}", "abs", "[0.5,'a']"]
GRID_QUICK = ["0", "1", "(0-7)", "9223372036854775807", "0.5", "(0-2.25)", "2.0", "''", "'ab'", "null", "[]", "[1,2]", "{'a':1}", "abs"]
GRID_BIN = ["+", "-", "*", "/", "%", "**", "==", "!=", "<", "<=", ">", ">=", "&", "|", "&&", "||", "??"]
GRID_UN = ["-{a}", "+{a}", "ceil({a})", "floor({a})", "round({a})", "abs({a})", "toInt({a})", "toFloat({a})", "toStr({a})", "toBool({a})", "repr({a})", "typeId({a})",
           "{a} ? 1 : 2", "[{a}][0]", "{a}.len()", "{a}.sum()", "{a}.kh()", "{a}.kl(1)", "{a}.keys()", "{a}[0]", "{a}[0:1]", "{a}.x", "`{{{a}}}`", "{a} * 2 + {a}", "[{a}..{a}]", "{a}d{a}", "{a} ? {a}"]


def op_grid(tier):
    vals = GRID_VALS if tier == "thorough" else GRID_QUICK
    progs = []
    for op in GRID_BIN:
        for a in vals:
            for b in vals:
                progs.append((f"{a} {op} {b}", "z,L30000" if op in "/%" and a.startswith("4") else "-,L30000"))
    for a in GRID_VALS:
        for t in GRID_UN:
            progs.append((t.replace("{a}", a), "-,L30000"))
        progs.append((f"{a} / 0", "z,L30000"))
        progs.append((f"{a} % 0", "z,L30000"))
    return progs


def mutate(r, src):
    b = bytearray(src.encode())
    for _ in range(r.randint(1, 3)):
        k = r.random()
        if k < 0.3 and b:
            del b[r.randrange(len(b))]
        elif k < 0.6:
            b.insert(r.randint(0, len(b)), r.choice(b"()[]{}'\"`\\,;:.+-*/%^&|?=<>!#@~$\n\t 0123456789dkqabcfpm\x1e\x00\xff\xe5"))
        elif k < 0.8 and b:
            i = r.randrange(len(b)); b[i] = r.randrange(256)
        else:
            i = r.randint(0, len(b)); j = r.randint(i, min(len(b), i + 8)); b[i:i] = b[i:j]
    return bytes(b)


CFGS = ["-", "wcfd", "wcfd,m", "wcfd,M", "S", "N", "B", "z", "wcfd,S,N,B,z", "c", "w", "d", "f", "T", "wcfd,T", "T,m"]


def main(tier):
    run = Run("C01", tier, module="DS.Props.C01", props_file="DS/Props/C01.lean",
              extra_files=["DS/Model/VM.lean", "DS/Model/VMRun.lean", "DS/Model/Ops.lean", "DS/Model/Value.lean"])
    if run.prepare():
        run.proofs()
        r = run.rng
        # ---------- (1) search: API sequences on the implementation
        cases = []
        for cfg, srcs in CORPUS:
            cases.append((cfg + ",L30000" if not cfg.startswith("P") else cfg + ",L30000", [s.encode() for s in srcs], "corpus"))
        # the DEFAULT configuration (no operation budget, no parse budget) and the documented recommended one (P10000000): recursion in the
        # program and nesting in the text are bounded by the library itself — an unbounded one ends the PROCESS (Go stack exhaustion is fatal)
        DEEP = ["&x = x; x", "func f(n){ f(n+1) }; f(0)", "func a(n){ b(n) }; func b(n){ a(n+1) }; a(0)", "&x = `{x}`; x", "func f(){ &c = f(); c }; f()",
                "x = [1]; &c = x[0] + c; c", "func f(n){ [f(n+1)] }; f(0)"]
        NEST = [("[", "1", "]"), ("(", "1", ")"), ("1+(", "1", ")"), ("[1,[", "2", "]]"), ("{'a':", "1", "}"), ("f(", "1", ")"), ("-(", "1", ")"), ("`{", "1", "}`"), ("1?(", "2", "):3"),
                ("if 1 {", "2", "}"), ("x[", "0", "]")]
        for cfgd in ("-", "P10000000", "wcfd"):
            for src in DEEP:
                cases.append((cfgd, [src.encode()], "default-config-recursion"))
            for (o, m, c) in NEST:
                n = 400
                cases.append((cfgd, [(o * n + m + c * n).encode(), (o * n).encode(), (o * n + m).encode()], "default-config-nesting"))
                if len(o) <= 3:
                    for n in ((40000,) if tier != "thorough" else (40000, 300000)):
                        cases.append((cfgd, [(o * n + m + c * n).encode()], "default-config-nesting"))
                        cases.append((cfgd, [(o * n).encode()], "default-config-nesting"))
        n = 6000 if tier == "thorough" else 1200
        for i in range(n):
            k = r.random()
            cfg = r.choice(CFGS) + "," + r.choice(["L30000", "L30000", "L300", "L30000,P100000"])
            if k < 0.35:
                cases.append((cfg, [adversarial(r).encode()], "adversarial"))
            elif k < 0.6:
                g = ProgGen(r, illtyped=0.25)
                src, c2 = g.program()
                cases.append((c2 + "," + cfg, [src.encode()], "generated"))
            elif k < 0.8:
                g = ProgGen(r, illtyped=0.15)
                src, c2 = g.program()
                cases.append((c2 + "," + cfg, [mutate(r, src)], "mutated"))
            elif k < 0.9:
                seqs = []
                for _ in range(r.randint(2, 4)):
                    g = ProgGen(r, illtyped=0.2)
                    s, c2 = g.program(r.randint(1, 3))
                    seqs.append(mutate(r, s) if r.random() < 0.3 else s.encode())
                if r.random() < 0.5:
                    # a dice-heavy success first, then a text that does not parse (much shorter than the program before it)
                    seqs = [r.choice(["1d6 + 1d6 + 1d6 + 1d6 + 1d6 + 1d6", "1 + 1 + 1 + 1 + 1 + 1 + 1 + 1 + 1 + 1 + d", "3d6kh2 + 2d4 + `{d20}` + [d6,d6].sum()",
                                      "func f(){ 2d6 + d }; f() + f() + d8", "x = 2d6; y = 3d4; x + y + d"]).encode(),
                            r.choice(["(", "(1", "[", "1 +", "'", "{", "`{", "f(", "1 ? 2 :"]).encode()] + seqs
                cases.append(("wcfd," + cfg, seqs, "sequence"))
            else:
                cases.append((cfg, [bytes(r.randrange(256) for _ in range(r.randint(0, 40)))], "random-bytes"))
        lines = [f"apiseq {cfg} {r.getrandbits(128):032x} " + " ".join(hx(s) for s in srcs) for cfg, srcs, kind in cases]
        out = run.go_only("apiseq", lines, go_timeout=900, line_timeout=15)
        for (cfg, srcs, kind), (ln, g) in zip(cases, out):
            run.count("kind." + kind)
            run.nontriv(ln)
            if g.startswith("ok "):
                continue
            rep = {"cfg": cfg, "sources": [s.decode("utf-8", "replace") for s in srcs], "sources_hex": [s.hex() for s in srcs],
                   "kind": kind, "implementation": g[:400]}
            if g.startswith("panic "):
                f = g.split()
                msg = unhx(f[1]).decode("utf-8", "replace")
                chain = f[2] if len(f) > 2 else ""
                rep["panic"] = msg
                rep["chain"] = chain
                site = classify_panic(msg, chain, g)
                if site in run.known:
                    run.known_finding(site, rep)
                else:
                    run.violation("panic-escapes:" + site, rep)
            elif g.startswith("died"):
                site = "fatal:" + ("timeout" if "timeout" in g else "process-death")
                if "timeout" in g and ("M" in cfg.split(",")[0] or ",M" in cfg) :
                    run.known_finding("C01-maxmode-exploding-dice-hang", rep)
                else:
                    run.violation(site, rep)
            else:
                run.violation("apiseq:unexpected", rep)
        run.sample({"oracle": "apiseq", "case": lines[len(CORPUS) + 1][:300]})
        # ---------- (2) tie: real VM vs Lean VM on the bytecode of generated programs
        progs = []
        for _ in range(3000 if tier == "thorough" else 600):
            g = ProgGen(r, illtyped=r.choice([0.0, 0.06, 0.2]))
            src, c2 = g.program()
            progs.append((src, c2 + "," + r.choice(["L30000", "L30000", "L200", "z,L30000", "m,L30000", "M,L30000"])))
        for _ in range(600 if tier == "thorough" else 150):
            progs.append((adversarial(r), "wcfd,L30000"))
        grid = op_grid(tier)
        run.count("vm.operator-grid", len(grid))
        vm_stream(run, progs + grid)
    return run.finish(
        trusted=["Lean 4.33 kernel", "axioms: propext, Classical.choice, Quot.sound", "Go harness + hook VerifDumpCode + Lean driver",
                 "Go runtime behaviour (goroutine stack exhaustion, heap exhaustion) is outside the model: adversarial depth/size cases "
                 "run under a watchdog and memory limit (validated, not proved)",
                 "float pow/formatting, dict iteration order, lazily compiled bodies and host callbacks are `unsup` in the model: "
                 "such cases are skipped by the stream and counted"],
        rule="API sequences: corpus of past crashes; ill-typed/extreme operands for every operator, method and dice family; "
             "type-directed generated programs (25% ill-typed sub-expressions); byte-level mutations; 2-4 program sequences on one "
             "VM incl. failed ones; random bytes; x 13 flag settings x budgets. vm stream: generated + adversarial programs executed "
             "by both VMs; distinct by (cfg, sources)",
        assumptions=["crash-freedom of Parse on arbitrary bytes is validated by the search (the PEG engine model covers it under C03/C16)"])


def classify_panic(msg, chain, raw):
    fn = chain.split("<")[0] if chain else ""
    if "max number of expressions" in msg:
        return "C01-parse-budget-panics"
    if "MustReadInt" in fn and "funcArray" in chain:
        return "C01-array-method-operand"
    if "MustReadInt" in fn:
        return "C01-dice-operand-MustReadInt"
    if "funcArrayRand" in fn:
        return "C01-array-method-operand"
    if "ArrayRepeatTimesEx" in fn:
        return "C01-array-repeat-length"
    if "index out of range [20]" in msg:
        return "C01-block-stack-off-by-one"
    if "makeDetailStr" in fn:
        return "C01-leaked-or-stale-detail-span"
    if "interface {} is nil" in msg and "evaluate" in fn:
        return "C01-leaked-unpatched-jump"
    return "unclassified@" + fn


def vm_stream(run, progs):
    """two-phase: the implementation dumps the bytecode; both VMs execute; outcomes are compared"""
    from lib.common import go_child, lean_child
    d = go_child().run([f"vmdump {cfg} {hx(src)}" for src, cfg in progs])
    lines, keep = [], []
    for (src, cfg), o in zip(progs, d):
        if o == "parse-err" or " " not in o:
            run.count("vm.parse-rejected")
            continue
        off, dump = o.split(" ", 1)
        lines.append(f"vmexec {cfg} {run.rng.getrandbits(128):032x} {hx(src)} {off} {dump}")
        keep.append((src, cfg))
    g = go_child(line_timeout=20).run(lines)
    m = lean_child().run(lines)
    agree = 0
    for (src, cfg), ln, a, b in zip(keep, lines, g, m):
        run.evaluations += 1
        a2 = re.sub(r"^panic.*", "panic", a)
        b2 = re.sub(r"^panic.*", "panic", b)
        # a NaN is a NaN: its sign bit and payload are not specified (math.Pow / libm)
        a2 = re.sub(r"\bf[7f]ff[0-9a-f]{13}\b", lambda m: "fNaN" if int(m.group(0)[1:], 16) & 0xfffffffffffff else m.group(0), a2)
        b2 = re.sub(r"\bf[7f]ff[0-9a-f]{13}\b", lambda m: "fNaN" if int(m.group(0)[1:], 16) & 0xfffffffffffff else m.group(0), b2)
        run.count("vm.go." + a2.split()[0])
        if b.startswith("unsup") or b == "diverge" or "e28988" in b:
            run.count("vm.skipped-unspecified")
            continue
        run.nontriv(("vm", src, cfg))
        if a2 == b2:
            agree += 1
            continue
        # float exponentiation is math.Pow on one side and libm's pow on the other: the last bits of a float result are not
        # specified by either (trusted base: "float pow"); such results are compared without their lowest 8 mantissa bits
        if ("**" in src or "^" in src) and re.sub(r"\bf([0-9a-f]{14})[0-9a-f]{2}\b", r"f\1", a2) == re.sub(r"\bf([0-9a-f]{14})[0-9a-f]{2}\b", r"f\1", b2):
            run.count("vm.float-pow-last-bits")
            agree += 1
            continue
        run.violation("correspondence:vm", {"stream": "vm", "source": src, "cfg": cfg, "implementation": a[:500], "model": b[:500],
                                            "replay_line": ln[:200] + "..."})
    st = run.streams.setdefault("vm", {"cases": 0, "agree": 0})
    st["cases"] += len(lines)
    st["agree"] += agree
    if keep:
        run.sample({"stream": "vm", "source": keep[0][0], "cfg": keep[0][1]})
