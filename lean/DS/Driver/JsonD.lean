import DS.Driver.Common
import DS.Model.Json
namespace DS.Driver
open DS.Json

/-! a small JSON text parser (driver only; the byte level is encoding/json's business) -/

def isWs (c : Char) : Bool := c == ' ' || c == '\n' || c == '\t' || c == '\r'
def skipWs : List Char → List Char
  | c :: cs => if isWs c then skipWs cs else c :: cs
  | [] => []

def hex4 : List Char → Option (Nat × List Char)
  | a :: b :: c :: d :: rest => do
    let x ← DS.Hex.digitVal a; let y ← DS.Hex.digitVal b; let z ← DS.Hex.digitVal c; let w ← DS.Hex.digitVal d
    pure (x * 4096 + y * 256 + z * 16 + w, rest)
  | _ => none

def parseStrBody : Nat → List Char → List Char → Option (String × List Char)
  | 0, _, _ => none
  | _, [], _ => none
  | fuel+1, c :: cs, acc =>
    if c == '"' then some (String.ofList acc.reverse, cs)
    else if c == '\\' then
      match cs with
      | 'n' :: r => parseStrBody fuel r ('\n' :: acc)
      | 't' :: r => parseStrBody fuel r ('\t' :: acc)
      | 'r' :: r => parseStrBody fuel r ('\r' :: acc)
      | 'b' :: r => parseStrBody fuel r ('\x08' :: acc)
      | 'f' :: r => parseStrBody fuel r ('\x0c' :: acc)
      | '/' :: r => parseStrBody fuel r ('/' :: acc)
      | '\\' :: r => parseStrBody fuel r ('\\' :: acc)
      | '"' :: r => parseStrBody fuel r ('"' :: acc)
      | 'u' :: r =>
        match hex4 r with
        | none => none
        | some (u, r2) =>
          if 0xD800 ≤ u ∧ u ≤ 0xDBFF then
            match r2 with
            | '\\' :: 'u' :: r3 =>
              match hex4 r3 with
              | some (lo, r4) =>
                if 0xDC00 ≤ lo ∧ lo ≤ 0xDFFF then
                  parseStrBody fuel r4 (Char.ofNat (0x10000 + (u - 0xD800) * 1024 + (lo - 0xDC00)) :: acc)
                else parseStrBody fuel r2 (Char.ofNat 0xFFFD :: acc)
              | none => none
            | _ => parseStrBody fuel r2 (Char.ofNat 0xFFFD :: acc)
          else if 0xDC00 ≤ u ∧ u ≤ 0xDFFF then parseStrBody fuel r2 (Char.ofNat 0xFFFD :: acc)
          else parseStrBody fuel r2 (Char.ofNat u :: acc)
      | _ => none
    else if c.toNat < 0x20 then none
    else parseStrBody fuel cs (c :: acc)

def takeDigits : List Char → List Char × List Char
  | c :: cs => if c.isDigit then let (d, r) := takeDigits cs; (c :: d, r) else ([], c :: cs)
  | [] => ([], [])

def digitsToNat (ds : List Char) : Nat := ds.foldl (fun a c => a * 10 + (c.toNat - 48)) 0

def parseNum (cs : List Char) : Option (Num × List Char) :=
  let (neg, cs) := match cs with | '-' :: r => (true, r) | _ => (false, cs)
  let (ip, r1) := takeDigits cs
  if ip.isEmpty then none
  else if ip.length > 1 && ip.head? == some '0' then none
  else
    let (fp, r2, hasF) := match r1 with
      | '.' :: r => let (d, r') := takeDigits r; (d, r', true)
      | _ => ([], r1, false)
    if hasF && fp.isEmpty then none else
    let (ex, r3, hasE, bad) := match r2 with
      | e :: r =>
        if e == 'e' || e == 'E' then
          let (sg, r') := match r with | '-' :: x => (true, x) | '+' :: x => (false, x) | _ => (false, r)
          let (d, r'') := takeDigits r'
          if d.isEmpty then ((0 : Int), r2, false, true)
          else ((if sg then -(digitsToNat d : Int) else (digitsToNat d : Int)), r'', true, false)
        else ((0 : Int), r2, false, false)
      | [] => ((0 : Int), r2, false, false)
    if bad then none
    else if !hasF && !hasE then
      let n : Int := digitsToNat ip
      some (.int (if neg then -n else n), r3)
    else
      let mant := digitsToNat (ip ++ fp)
      let e10 : Int := ex - fp.length
      let f := Float.ofScientific mant (e10 < 0) e10.natAbs
      let f := if neg then -f else f
      if f.isInf then some (.fltOverflow, r3) else some (.flt f, r3)

/-- encoding/json matches struct fields case-insensitively -/
def classify (k : String) : Key :=
  let l := k.toLower
  let f := if l == "t" then some Field.t else if l == "v" then some Field.v else if l == "expr" then some Field.expr
    else if l == "name" then some Field.name else if l == "params" then some Field.params
    else if l == "list" then some Field.list else if l == "dict" then some Field.dict
    else if l == "attrs" then some Field.attrs else none
  { raw := k, field := f }

mutual
  def parseJ : Nat → List Char → Option (J × List Char)
    | 0, _ => none
    | fuel+1, cs =>
      match skipWs cs with
      | 'n' :: 'u' :: 'l' :: 'l' :: r => some (.null, r)
      | 't' :: 'r' :: 'u' :: 'e' :: r => some (.bool true, r)
      | 'f' :: 'a' :: 'l' :: 's' :: 'e' :: r => some (.bool false, r)
      | '"' :: r => (parseStrBody (r.length + 1) r []).map (fun (s, r') => (.str s, r'))
      | '[' :: r =>
        match skipWs r with
        | ']' :: r' => some (.arr [], r')
        | r' => (parseElems fuel r').map (fun (l, r'') => (.arr l, r''))
      | '{' :: r =>
        match skipWs r with
        | '}' :: r' => some (.obj [], r')
        | r' => (parseMembers fuel r').map (fun (l, r'') => (.obj l, r''))
      | c :: r => if c == '-' || c.isDigit then (parseNum (c :: r)).map (fun (n, r') => (.num n, r')) else none
      | [] => none

  def parseElems : Nat → List Char → Option (List J × List Char)
    | 0, _ => none
    | fuel+1, cs =>
      match parseJ fuel cs with
      | none => none
      | some (j, r) =>
        match skipWs r with
        | ',' :: r' => (parseElems fuel r').map (fun (l, r'') => (j :: l, r''))
        | ']' :: r' => some ([j], r')
        | _ => none

  def parseMembers : Nat → List Char → Option (List (Key × J) × List Char)
    | 0, _ => none
    | fuel+1, cs =>
      match skipWs cs with
      | '"' :: r =>
        match parseStrBody (r.length + 1) r [] with
        | none => none
        | some (k, r1) =>
          match skipWs r1 with
          | ':' :: r2 =>
            match parseJ fuel r2 with
            | none => none
            | some (j, r3) =>
              match skipWs r3 with
              | ',' :: r4 => (parseMembers fuel r4).map (fun (l, r5) => ((classify k, j) :: l, r5))
              | '}' :: r4 => some ([(classify k, j)], r4)
              | _ => none
          | _ => none
      | _ => none
end

def parseJson (s : String) : Option J :=
  match parseJ (s.length + 2) s.toList with
  | some (j, r) => if (skipWs r).isEmpty then some j else none
  | none => none

def sortStr (l : List String) : List String := l.mergeSort (fun a b => a ≤ b)

def u64hex (f : Float) : String :=
  let n := f.toBits.toNat
  if n == 0 then "0" else
  let rec go (fuel : Nat) (n : Nat) (acc : List Char) : List Char :=
    match fuel with
    | 0 => acc
    | fuel+1 => if n == 0 then acc else go fuel (n / 16) (DS.Hex.hexDigit (n % 16) :: acc)
  String.ofList (go 17 n [])

mutual
  def canonV : Nat → V → String
    | 0, _ => "DEEP"
    | _, .int i => s!"i{i}"
    | _, .float f => "f" ++ u64hex f
    | _, .str s => "s" ++ hx s
    | _, .null => "n"
    | fuel+1, .arr l => "[" ++ " ".intercalate (canonList fuel l) ++ "]"
    | fuel+1, .dict kv => canonKV fuel kv
    | _, .func e n ps => "F" ++ hx n ++ "(" ++ ",".intercalate (ps.map hx) ++ ")" ++ hx e
    | _, .computed e none => "C" ++ hx e
    | fuel+1, .computed e (some m) => "C" ++ hx e ++ canonKV fuel m
    | _, .nativeFn n => "N" ++ hx n
    | _, .nativeObj n => "O" ++ hx n
    | _, .unknownTag t => s!"T{t}"
  def canonList : Nat → List V → List String
    | _, [] => []
    | fuel, v :: r => canonV fuel v :: canonList fuel r
  def canonKV : Nat → List (String × V) → String
    | fuel, kv => "{" ++ " ".intercalate (sortStr (canonEntries fuel (dedupe kv))) ++ "}"
  def canonEntries : Nat → List (String × V) → List String
    | _, [] => []
    | fuel, (k, v) :: r => (hx k ++ "=" ++ canonV fuel v) :: canonEntries fuel r
end

def jsonLine (toks : List String) : String :=
  match toks with
  | ["jsondecm", h] =>
    match DS.Hex.decode h with
    | none => "bad-op"
    | some txt =>
      match parseJson txt with
      | none => "err"
      | some j =>
        match decode 200 j with
        | .error _ => "err"
        | .ok v => "ok " ++ canonV 200 v
  | ["jsonmapm", h] =>
    match DS.Hex.decode h with
    | none => "bad-op"
    | some txt =>
      match parseJson txt with
      | none => "err"
      | some j =>
        match decodeMap 200 j with
        | .error _ => "err"
        | .ok m => "ok " ++ canonKV 200 m
  | _ => "bad-op"

end DS.Driver
