"""C11 — independent VMs are race-free and behave exactly as when run alone.

Proof: DS/Props/C11.lean — isolation for every number of VMs and every interleaving on the step model (no step writes
package-level state => each VM's result equals its isolated result); regenerated facts (DS/Gen/Globals.lean, re-extracted
from /repo on every run, decided in the kernel): the only assignments to package-level variables are init-time
registration and a public setter that the library itself never calls; the package-level random source is used only
under its mutex; the shared builtin tables are only read.
Search/validation on the implementation: N goroutines, own VM each (seeded and unseeded, three languages, different
flags), cold start, compared per goroutine with the isolated run; the same under the Go race detector.
"""
import os
import re
import subprocess

from lib.common import Run, HARNESS, BUILD, GOENV, HARNESS_BIN, sh, Lock

RACE_BIN = os.path.join(BUILD, "dsharness-race")


def build_race():
    with Lock("go"):
        env = dict(GOENV, CGO_ENABLED="1")
        rc, log = sh(["go", "build", "-race", "-tags", "verif", "-o", RACE_BIN, "."], cwd=HARNESS, env=env, timeout=900)
    return rc == 0, log


def run_once(binary, line, timeout=120):
    env = dict(os.environ, GORACE="halt_on_error=0", GOMAXPROCS="8")
    try:
        p = subprocess.run([binary], input=line + "\n", capture_output=True, text=True, timeout=timeout, env=env)
        return p.stdout.strip(), p.stderr, p.returncode
    except subprocess.TimeoutExpired:
        return "timeout", "", -1


def main(tier):
    run = Run("C11", tier, module="DS.Props.C11", props_file="DS/Props/C11.lean",
              extra_files=["DS/Model/Conc.lean"])
    if run.prepare():
        run.proofs()
        r = run.rng
        ok, log = build_race()
        if not ok:
            run.notes.append("race build failed: " + log[-300:])
        n_plain = 40 if tier == "thorough" else 10
        n_race = 12 if tier == "thorough" else 4
        for k in range(n_plain):
            seeded = 1 if k % 4 != 3 else 0
            line = f"conc {r.randint(1, 10**6)} {r.choice((4, 8, 16))} {r.choice((20, 60))} {seeded}"
            out, err, rc = run_once(HARNESS_BIN, line)
            run.evaluations += 1
            run.nontriv(line)
            if out.startswith("mismatch"):
                parts = out.split()
                run.violation("vm-differs-from-isolated-run", {"case": line, "implementation": out[:1500]})
            elif not out.startswith("ok"):
                run.violation("concurrent-run-crashed", {"case": line, "stdout": out[:300], "stderr": err[-1500:], "rc": rc})
        run.streams["conc"] = {"cases": n_plain, "impl_only": True}
        races = 0
        if ok:
            for k in range(n_race):
                seeded = k % 2
                line = f"conc {r.randint(1, 10**6)} 8 30 {seeded}"
                out, err, rc = run_once(RACE_BIN, line, timeout=300)
                run.evaluations += 1
                run.nontriv(("race", line))
                if "DATA RACE" in err:
                    races += 1
                    frames = re.findall(r"github\.com/sealdice/dicescript\.\(?\*?(\w+\)?\.?\w*)\(\)", err)
                    run.violation("data-race", {"case": line, "race_detector_frames": frames[:12], "report": err[:2500]})
                elif not out.startswith("ok"):
                    run.violation("concurrent-run-crashed(race build)", {"case": line, "stdout": out[:300], "stderr": err[-1500:]})
            run.streams["conc-race"] = {"cases": n_race, "impl_only": True, "race_reports": races}
        # ---- isolation over TIME as well: what a VM reports does not depend on which other VMs (with other settings) were used before it
        #      in the same process — errors of a host stream parser's operand (CustomDiceStream.ReadExpr), ordinary syntax errors, rolls
        from lib.common import go_child, hx as _hx
        probes = [("E0,L30000", "spexpr", "R(2*"), ("E1,L30000", "spexpr", "R(2*"), ("E2,L30000", "spexpr", "R1 +* 2"), ("E0,L30000", "spexpr", "R`{1+}`"),
                  ("E0,L30000", "-", "(1 +"), ("E1,L30000", "-", "[1,"), ("L30000", "-", "&cb = (hp9 ?? 10) + 1; cb"), ("L30000", "-", "&cc = (mp9 ?? 3) * 2; cc"), ("E2,L30000", "sphash", "#5 +"), ("E0,L30000", "spexpr", "R2d6 + (")]
        befores = [("L30000", "-", "&ca = (hp9 = 50) + 1; &cz = (mp9 = 9); ca + cz"), ("E2,L30000", "spexpr", "R1+2"), ("E1,L30000", "spexpr", "R(3*"), ("E2,L30000", "-", "1 +"), ("E1,L30000", "sphash", "#7"), ("E2,L30000", "spexpr", "R(")]
        for pc, ps, psrc in probes:
            alone = go_child(line_timeout=20).run([f"custom {pc} {1:032x} {ps} {_hx(psrc)}"])[0]
            for bc, bs, bsrc in befores:
                both = go_child(line_timeout=20).run([f"custom {bc} {2:032x} {bs} {_hx(bsrc)}", f"custom {pc} {1:032x} {ps} {_hx(psrc)}"])
                run.evaluations += 1
                run.nontriv(("after", pc, ps, psrc, bc, bs, bsrc))
                if len(both) == 2 and both[1] != alone:
                    run.violation("vm-differs-after-another-vm-was-used", {"probe": {"cfg": pc, "host": ps, "source": psrc}, "used_before": {"cfg": bc, "host": bs, "source": bsrc},
                                                                           "alone": alone[:400], "after_the_other": both[1][:400]})
        run.sample({"oracle": "conc", "case": "conc <seed base> <goroutines> <iterations> <seeded>: own VM per goroutine, three languages, "
                                               "mixed flags, programs with builtin methods, functions, computed values, syntax errors"})
    return run.finish(
        trusted=["Lean 4.33 kernel", "axioms: propext, Quot.sound", "translator harness/extract (Globals)", "Go harness",
                 "the Go race detector (supporting validation, not proof): data races proper are outside an executable model"],
        rule="each case = one fresh process (cold start) running 4-16 goroutines with their own VM (seeded: compared run by run with "
             "the isolated execution; unseeded: crash/race only), programs drawn from 20 templates incl. builtin methods on shared "
             "prototypes, functions, computed values, templates, loops, syntax errors in three languages; a subset under -race",
        assumptions=["schedules are whatever the Go scheduler produces in these runs; the theorem quantifies over all schedules of the model"])
