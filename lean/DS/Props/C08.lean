/-
  C08 — every compiled program is structurally well-formed bytecode.

  `Reach code s`: the skeleton state `s` is reachable from the initial state by ANY sequence of skeleton steps — both
  directions of every conditional jump, any number of loop iterations, no bound on the length of the run.
  `verified_never_stuck`: if the certificate check accepts an annotation for `code`, then at every reachable state inside
  the code the next instruction is not a structural fault: it does not pop an empty stack, its jump has an operand and
  lands in [0, size], its block.pop / fstr.block.pop has a matching push, and the dice / annotation / pool-dice state it
  uses was set up by an earlier instruction.
  `same_open_blocks`: every reachable state at one program point has the same numbers of open blocks and template holes
  (they are fixed by the annotation).
  `exec_refines_skeleton` (DS/Proofs/ExecSkel.lean, one lemma per opcode): whenever the skeleton is not stuck at a frame's
  skeleton state, the model VM's `exec` of that instruction — for EVERY heap, configuration, operand values and outcome of
  the value-level computation — does not end in a structural panic, and if it continues, the new frame is one of the
  skeleton's successors with the same code.
  `verified_code_runs_clean`: hence the dispatch loop, started anywhere reachable in verified code, never reports a
  structural fault, for any number of dispatches (compositional in the sub-VM runs it triggers: every function / computed
  body is itself a verified code unit).
  The verifier is run on the real compiler's output for every accepted input (lib/props/c08.py); the model VM is tied to
  the real VM by the vm stream, and D1/D2 are additionally cross-checked at run time (DS/Model/VerifyRun.lean).
-/
import DS.Proofs.VerifyLemmas
import DS.Proofs.Room

namespace DS.Props.C08
open DS.VM DS.Verify

inductive Reach (code : Code) : SK → Prop
  | init : Reach code SK.init
  | step {s s' : SK} {l : List SK} : Reach code s → s.pc < code.size →
      sstep code.size (kindOf code[s.pc]!) s = some l → s' ∈ l → Reach code s'

/-- what the certificate check establishes -/
structure Cert (code : Code) (ann : Ann) : Prop where
  init : 0 < code.size → ∃ a0, ann[0]! = some a0 ∧ a0.le Abs.init = true
  closed : ∀ pc, pc < code.size → ∀ a, ann[pc]! = some a →
    ∃ succs, transfer code.size pc (kindOf code[pc]!) a = .ok succs ∧
      ∀ p ∈ succs, code.size ≤ p.1 ∨ ∃ b, ann[p.1]! = some b ∧ b.le p.2 = true

theorem checkAnn_cert (code : Code) (ann : Ann) (h : checkAnn code ann = true) : Cert code ann := by
  simp only [checkAnn, Bool.and_eq_true, beq_iff_eq, List.all_eq_true, List.mem_range] at h
  obtain ⟨⟨hsz, h0⟩, hall⟩ := h
  constructor
  · intro hpos
    have hlt : 0 < ann.size := by omega
    have e1 : ann[0]? = some ann[0] := Array.getElem?_eq_getElem hlt
    have e2 : ann[0]! = ann[0] := getElem!_pos ann 0 hlt
    rw [e1] at h0
    cases hv : ann[0] with
    | none => rw [hv] at h0; simp at h0
    | some a0 => rw [hv] at h0; exact ⟨a0, by rw [e2, hv], h0⟩
  · intro pc hpc a ha
    have := hall pc hpc
    rw [ha] at this
    simp only at this
    split at this
    · cases this
    · rename_i succs hs
      refine ⟨succs, hs, ?_⟩
      intro p hp
      simp only [List.all_eq_true] at this
      have hp' := this p hp
      simp only [Bool.or_eq_true, decide_eq_true_eq] at hp'
      rcases hp' with hp' | hp'
      · exact Or.inl hp'
      · right
        split at hp'
        · rename_i b hb; exact ⟨b, hb, hp'⟩
        · cases hp'

theorem verifyCode_cert (code : Code) (ann : Ann) (h : verifyCode code = .ok ann) : Cert code ann := by
  simp only [verifyCode] at h
  split at h
  · cases h
  · split at h
    · rename_i hc; injection h with h; subst h; exact checkAnn_cert _ _ hc
    · cases h

theorem rel_init : Rel Abs.init SK.init := by
  refine ⟨by simp [base, SK.init, Abs.init], by simp [Tail, SK.init, Abs.init], by simp [SK.init, Abs.init], ?_, ?_, ?_⟩ <;>
    simp [Abs.init]

/-- the invariant: every reachable state inside the code is described by the annotation of its program point -/
theorem reach_inv (code : Code) (ann : Ann) (hc : Cert code ann) (s : SK) (hr : Reach code s) :
    s.pc < code.size → ∃ a, ann[s.pc]! = some a ∧ Rel a s := by
  induction hr with
  | init =>
    intro hpos
    obtain ⟨a0, h0, hle⟩ := hc.init hpos
    exact ⟨a0, h0, le_sound _ _ _ hle rel_init⟩
  | step hreach hpc hstep hmem ih =>
    rename_i s s' l
    intro hpc'
    obtain ⟨a, ha, hrel⟩ := ih hpc
    obtain ⟨succs, ht, hclosed⟩ := hc.closed s.pc hpc a ha
    have hg := transfer_sound code.size (kindOf code[s.pc]!) a s succs hrel ht
    rw [hstep] at hg
    obtain ⟨p, hp, hpcEq, hrel'⟩ := hg s' hmem
    rcases hclosed p hp with hge | ⟨b, hb, hle⟩
    · omega
    · exact ⟨b, by rw [← hpcEq]; exact hb, le_sound _ _ _ hle hrel'⟩

/-- C08, main theorem: verified code never reaches a structural fault, on any path, at any depth -/
theorem verified_never_stuck (code : Code) (ann : Ann) (hv : verifyCode code = .ok ann) (s : SK) (hr : Reach code s)
    (hpc : s.pc < code.size) : (sstep code.size (kindOf code[s.pc]!) s).isSome = true := by
  have hc := verifyCode_cert code ann hv
  obtain ⟨a, ha, hrel⟩ := reach_inv code ann hc s hr hpc
  obtain ⟨succs, ht, _⟩ := hc.closed s.pc hpc a ha
  have hg := transfer_sound code.size (kindOf code[s.pc]!) a s succs hrel ht
  cases hs : sstep code.size (kindOf code[s.pc]!) s with
  | none => rw [hs] at hg; exact hg.elim
  | some l => rfl

/-- every reachable state has its program counter in [0, size]: jumps land inside the code or exactly one past its end -/
theorem verified_targets_in_bounds (code : Code) (s : SK) (hr : Reach code s) : s.pc ≤ code.size := by
  cases hr with
  | init => simp [SK.init]
  | step hreach hpc hstep hmem => exact sstep_pc_le _ _ _ _ _ hpc hstep hmem

/-- each program point is always reached with the same numbers of open blocks and template holes -/
theorem same_open_blocks (code : Code) (ann : Ann) (hv : verifyCode code = .ok ann) (s₁ s₂ : SK)
    (h₁ : Reach code s₁) (h₂ : Reach code s₂) (hpc : s₁.pc = s₂.pc) (hin : s₁.pc < code.size) :
    s₁.blocks.length = s₂.blocks.length ∧ s₁.fblocks.length = s₂.fblocks.length := by
  have hc := verifyCode_cert code ann hv
  obtain ⟨a₁, ha₁, r₁⟩ := reach_inv code ann hc s₁ h₁ hin
  obtain ⟨a₂, ha₂, r₂⟩ := reach_inv code ann hc s₂ h₂ (by omega)
  rw [hpc] at ha₁
  have : a₁ = a₂ := by rw [ha₁] at ha₂; injection ha₂
  subst this
  have l₁ := tail_lengths _ _ _ r₁.2.1
  have l₂ := tail_lengths _ _ _ r₂.2.1
  omega

/-! ### what "not stuck" means, instruction by instruction (the faults the property lists) -/

theorem stuck_pop (size p q : Nat) (s : SK) : (sstep size (.simple p q) s).isSome = true ↔ p ≤ s.top := by
  simp only [sstep]; split <;> simp <;> omega

theorem stuck_jump (size : Nat) (off : Option Int) (s : SK) :
    (sstep size (.jmp off) s).isSome = true ↔ ∃ o, off = some o ∧ 0 ≤ (s.pc : Int) + 1 + o ∧ (s.pc : Int) + 1 + o ≤ size := by
  simp only [sstep, target]
  cases off with
  | none => simp
  | some o =>
    simp only
    split
    · rename_i h
      split at h
      · cases h
      · rename_i hc
        simp only [Bool.or_eq_true, decide_eq_true_eq, not_or, Int.not_lt] at hc
        simp; omega
    · rename_i h
      split at h
      · rename_i hc
        simp only [Bool.or_eq_true, decide_eq_true_eq] at hc
        simp; omega
      · cases h

theorem stuck_blockPop (size : Nat) (s : SK) : (sstep size .blockPop s).isSome = true ↔ s.blocks ≠ [] := by
  simp only [sstep]; cases s.blocks <;> simp

theorem stuck_dice (size : Nat) (s : SK) : (sstep size .dice s).isSome = true ↔ 1 ≤ s.top ∧ 1 ≤ s.dice ∧ 1 ≤ s.det := by
  simp only [sstep]; split <;> rename_i h <;> simp at h ⊢ <;> omega

/-! ### from the skeleton to the VM -/

/-- **exec refines the skeleton** (every opcode, every heap / configuration / operand values): if the skeleton step is
    defined at the frame's skeleton state, `exec` does not end in a structural panic, and a continuing `exec` lands in one
    of the skeleton's successor states, in the same code -/
theorem exec_refines_skeleton (sub : SubRun) (hsub : NoStructSub sub) (g : G) (f : Frame) (wod dc : Bool) (ins : Instr)
    (hroom : Room f) (hlt : f.top < f.stack.size)
    (succs : List SK) (hs : sstep f.code.size (kindOf ins) (skOfFrame f wod dc) = some succs) :
    Post (fun f' => ∃ s' ∈ succs, skMatches f' s' = true ∧ f'.code = f.code ∧ f'.stack.size = f.stack.size) (exec sub g f ins) :=
  exec_refines sub hsub g f wod dc ins hroom hlt succs hs

/-- … and the next frame again has room for whatever the next instruction pushes (`Room`: the stack array has its 1000 slots, the
    height is within it, every height saved by a block / template-hole push is below the overflow line) -/
theorem exec_keeps_room (sub : SubRun) (hsub : NoStructSub sub) (g : G) (f : Frame) (wod dc : Bool) (ins : Instr)
    (hroom : Room f) (hlt : f.top < stackSize)
    (succs : List SK) (hs : sstep f.code.size (kindOf ins) (skOfFrame f wod dc) = some succs)
    (g' : G) (f' : Frame) (hex : exec sub g f ins = .next g' f') : Room f' := by
  have hp := exec_refines_skeleton sub hsub g f wod dc ins hroom (by rw [hroom.size]; exact hlt) succs hs
  rw [hex] at hp
  obtain ⟨s', hmem, hm, _, hsz⟩ := hp
  exact room_of_matches hm (sstep_room (kindOf_ok ins) (roomS_of_room hroom wod dc) hlt hs hmem) (by rw [hsz]; exact hroom.size)

/-- the dispatch loop with the sub-VM runner as a parameter (one runner per remaining fuel) -/
def runWith (subs : Nat → SubRun) : Nat → G → Frame → G × Res SubOut
  | 0, g, _ => (g, .diverge)
  | fuel+1, g, f =>
    if f.pc ≥ f.code.size then
      (g, .ok { top := if f.top == 0 then none else some (f.stack[f.top - 1]!), spans := solvedSpans g f })
    else
      let g := addOps g f.ctx 1
      if overLimit g (getOps g f.ctx) then (g, .err "允许算力上限")
      else if f.top == stackSize then (g, .err "执行栈到达溢出线")
      else
        match exec (subs fuel) g f (f.code[f.pc]!) with
        | .next g' f' => runWith subs fuel g' f'
        | .done g' f' =>
          (g', .ok { top := if f'.top == 0 then none else some (f'.stack[f'.top - 1]!), spans := solvedSpans g' f' })
        | .stop g' _ r => (g', r.cast)

/-- `evalLoop` is `runWith` with itself as the sub-VM runner -/
theorem evalLoop_eq_runWith : ∀ (fuel : Nat) (g : G) (f : Frame),
    evalLoop fuel g f = runWith (fun k g' fr => evalLoop k g' fr) fuel g f := by
  intro fuel
  induction fuel with
  | zero => intro g f; rfl
  | succ n ih =>
    intro g f
    simp only [evalLoop, runWith]
    split
    · rfl
    · split
      · rfl
      · split
        · rfl
        · split <;> simp_all

theorem skMatches_eq {f : Frame} {s : SK} (h : skMatches f s = true) : skOfFrame f s.wod s.dc = s := by
  simp only [skMatches, Bool.and_eq_true, beq_iff_eq] at h
  obtain ⟨⟨⟨⟨⟨h1, h2⟩, h3⟩, h4⟩, h5⟩, h6⟩ := h
  cases s
  simp only [skOfFrame] at *
  simp [h1, h2, h3, h4, h5, h6]

/-- **Verified code runs clean.**  Start the dispatch loop at any frame whose skeleton state is reachable in a verified
    code unit: whatever the heap, the configuration, the values on the stack and the random stream are, and however many
    instructions are dispatched, the run never ends in a structural fault (pop of an empty stack, missing or negative jump
    target, block / template-hole pop without a push, dice or annotation state nobody set up) — provided the sub-VM runs
    it triggers do not report one (they execute other code units, to which this theorem applies in turn).
    Structural faults include a push onto a FULL operand stack: the loop's overflow guard (`top == len(stack)` ⇒ error, checked before
    every instruction) is enough, because no instruction pushes more than one value beyond what it popped and a block pop restores a
    height that was below the line when it was saved (`Room`, an invariant of the run). -/
theorem verified_code_runs_clean (subs : Nat → SubRun) (hsubs : ∀ k, NoStructSub (subs k))
    (code : Code) (ann : Ann) (hv : verifyCode code = .ok ann) :
    ∀ (fuel : Nat) (g : G) (f : Frame) (wod dc : Bool), f.code = code → Reach code (skOfFrame f wod dc) → Room f →
      NoStruct (runWith subs fuel g f).2 := by
  intro fuel
  induction fuel with
  | zero => intro g f _ _ _ _ _; exact nostruct_diverge
  | succ n ih =>
    intro g f wod dc hcode hr hroom
    simp only [runWith]
    split
    · exact nostruct_ok _
    · rename_i hpc
      split
      · exact nostruct_err _
      · split
        · exact nostruct_err _
        · rename_i hfull
          have hlt : f.top < stackSize := by
            have := hroom.top
            simp only [beq_iff_eq] at hfull
            omega
          have hpc' : (skOfFrame f wod dc).pc < code.size := by simp only [skOfFrame]; rw [← hcode]; omega
          have hns := verified_never_stuck code ann hv _ hr hpc'
          cases hs : sstep code.size (kindOf code[(skOfFrame f wod dc).pc]!) (skOfFrame f wod dc) with
          | none => rw [hs] at hns; cases hns
          | some succs =>
            have hs' : sstep f.code.size (kindOf (f.code[f.pc]!)) (skOfFrame f wod dc) = some succs := by
              rw [hcode]; exact hs
            have hp := exec_refines_skeleton (subs n) (hsubs n) (addOps g f.ctx 1) f wod dc _ hroom (by rw [hroom.size]; exact hlt) succs hs'
            split
            · rename_i g' f' hex
              have hroom' := exec_keeps_room (subs n) (hsubs n) (addOps g f.ctx 1) f wod dc _ hroom hlt succs hs' g' f' hex
              rw [hex] at hp
              obtain ⟨s', hmem, hm, hc, _⟩ := hp
              have he := skMatches_eq hm
              exact ih g' f' s'.wod s'.dc (by rw [hc, hcode]) (by rw [he]; exact Reach.step hr hpc' hs hmem) hroom'
            · exact nostruct_ok _
            · rename_i g' f' r hex
              rw [hex] at hp
              exact nostruct_cast hp

/-- … in particular for the model VM's own loop, whose sub-VM runner is the loop itself -/
theorem evalLoop_runs_clean (code : Code) (ann : Ann) (hv : verifyCode code = .ok ann)
    (hsubs : ∀ k, NoStructSub (fun g' fr => evalLoop k g' fr))
    (fuel : Nat) (g : G) (f : Frame) (hcode : f.code = code) (hpc : f.pc = 0) (htop : f.top = 0)
    (hb : f.blocks = []) (hfb : f.fblocks = []) (hd : f.dice = []) (hdet : f.details = []) (hstack : f.stack = newStack) :
    NoStruct (evalLoop fuel g f).2 := by
  rw [evalLoop_eq_runWith]
  refine verified_code_runs_clean _ hsubs code ann hv fuel g f false false hcode ?_ (room_fresh f hstack htop hb hfb)
  have : skOfFrame f false false = SK.init := by simp [skOfFrame, SK.init, hpc, htop, hb, hfb, hd, hdet]
  rw [this]; exact Reach.init

/-! ### non-vacuity: a loop with a conditional exit verifies; malformed code does not -/

def loopCode : Code := #[.pushInt 0, .blockPush, .pushInt 1, .jne (some 3), .pushInt 7, .pop, .jmp (some (-5)), .blockPop]

example : (verifyCode loopCode).isOk = true := by decide
example : (verifyCode #[.pop]).isOk = false := by decide
example : (verifyCode #[.jmp none]).isOk = false := by decide
example : (verifyCode #[.blockPop]).isOk = false := by decide
example : (verifyCode #[.pushInt 1, .je (some 1), .blockPush, .blockPop]).isOk = false := by decide
example : (verifyCode #[.pushInt 6, .dice]).isOk = false := by decide

/-- the frame `Run` starts from has room … -/
example : Room { ctx := 0, code := loopCode, stack := newStack } := room_fresh _ rfl rfl rfl rfl
/-- … a frame at the overflow line is where a push WOULD fault (the loop's guard reports "执行栈到达溢出线" instead of dispatching) … -/
example : ({ ctx := 0, code := loopCode, stack := newStack, top := 1000 } : Frame).push (.int 1) = .panic "index out of range@stackPush" := by
  simp [Frame.push, newStack, stackSize]
/-- … and that fault is one of the structural faults the theorem excludes -/
example : Structural "index out of range@stackPush" = true := by decide

end DS.Props.C08
