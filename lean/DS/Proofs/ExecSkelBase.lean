/- C08: the model VM's `exec` refines the verifier's skeleton — primitives and callee lemmas -/
import DS.Model.VerifyRun
import DS.Props.C01
namespace DS.VM
open DS.Verify

/-- every panic site of `exec` that stands for a malformed program (what C08 forbids) -/
def structSites : List String :=
  ["index out of range [-1]@stackPop", "index out of range [-1]@store", "index out of range [-1]@diceStates",
   "index out of range [-1]@push.def_expr details", "index out of range [-1]@push.def_expr diceStates",
   "index out of range [-1]@ld.d details", "index out of range [-1]@dice details", "index out of range [-1]@dice.fate details",
   "index out of range [-1]@coc details", "index out of range [-1]@dice.wod details", "index out of range [-1]@dice.dc details",
   "index out of range [-1]@block.pop", "index out of range [-1]@fstr.block.pop", "index out of range@jump",
   "nil operand type assertion@jump", "details",
   -- a push onto a full operand stack (Go: index out of range on the fixed 1000-slot array)
   "index out of range@stackPush"]
def Structural (s : String) : Bool := structSites.contains s

def NoStruct {α} (r : Res α) : Prop := ∀ s, r = .panic s → Structural s = false
def NoStructSub (sub : SubRun) : Prop := ∀ g fr, NoStruct (sub g fr).2

def Post (P : Frame → Prop) : StepR → Prop
  | .next _ f' => P f'
  | .done _ _ => True
  | .stop _ _ r => NoStruct r

/-- the skeleton-relevant part of a frame is unchanged except for the height -/
structure SameBut (f f' : Frame) (top' : Nat) : Prop where
  pc : f'.pc = f.pc
  top : f'.top = top'
  blocks : f'.blocks = f.blocks
  fblocks : f'.fblocks = f.fblocks
  dice : f'.dice.length = f.dice.length
  details : f'.details.length = f.details.length
  code : f'.code = f.code
  wodPool : f'.wodPool = f.wodPool
  dcPool : f'.dcPool = f.dcPool
  ssize : f'.stack.size = f.stack.size

/-- what keeps every push of the next instruction inside the operand stack: the array has its 1000 slots, the height is within it,
    and every height saved by a block / template-hole push was below the overflow line when it was saved -/
structure Room (f : Frame) : Prop where
  size : f.stack.size = stackSize
  top : f.top ≤ stackSize
  blocks : ∀ t ∈ f.blocks, t < stackSize
  fblocks : ∀ t ∈ f.fblocks, t < stackSize

theorem pop_ok_inv {f : Frame} {v : Val} {f' : Frame} (h : f.pop = .ok (v, f')) : 0 < f.top ∧ SameBut f f' (f.top - 1) := by
  unfold Frame.pop at h
  split at h
  · simp at h
  · rename_i h0
    simp at h
    obtain ⟨_, rfl⟩ := h
    exact ⟨by simp at h0; omega, ⟨rfl, rfl, rfl, rfl, rfl, rfl, rfl, rfl, rfl, rfl⟩⟩

theorem pop_cases (f : Frame) :
    (f.top = 0 ∧ f.pop = .panic "index out of range [-1]@stackPop") ∨
    (0 < f.top ∧ f.pop = .ok (f.stack[f.top - 1]!, { f with top := f.top - 1, lastPop := .slot (f.top - 1) })) := by
  unfold Frame.pop
  by_cases h : f.top = 0
  · left; simp [h]
  · right; simp [h]; omega

theorem pop_fail {f : Frame} (h : ∀ v f', f.pop = .ok (v, f') → False) : f.top = 0 := by
  unfold Frame.pop at h
  by_cases h0 : f.top = 0
  · exact h0
  · simp [h0] at h

theorem nostruct_cast_of_ne {α β} (r : Res α) (h : ∀ s, r ≠ .panic s) : NoStruct (r.cast : Res β) := by
  intro s hs
  cases r <;> simp [Res.cast] at hs
  exact absurd rfl (h _)

theorem pop_cast {β} {f : Frame} (h : 0 < f.top) : NoStruct (f.pop.cast : Res β) := by
  apply nostruct_cast_of_ne
  intro s
  unfold Frame.pop
  have : (f.top == 0) = false := by simp; omega
  simp [this]

theorem push_ok_inv {f : Frame} {v : Val} {f' : Frame} (h : f.push v = .ok f') : SameBut f f' (f.top + 1) := by
  unfold Frame.push at h
  split at h
  · simp at h; subst h; exact ⟨rfl, rfl, rfl, rfl, rfl, rfl, rfl, rfl, rfl, by simp⟩
  · simp at h

theorem push_cast {β} (f : Frame) (v : Val) (h : f.top < f.stack.size) : NoStruct ((f.push v).cast : Res β) := by
  intro s hs
  unfold Frame.push at hs
  simp [h, Res.cast] at hs

theorem pop2_ok_inv {f : Frame} {a b : Val} {f' : Frame} (h : f.pop2 = .ok (a, b, f')) : 2 ≤ f.top ∧ SameBut f f' (f.top - 2) := by
  unfold Frame.pop2 at h
  split at h
  · rename_i v2 f1 h1
    split at h
    · rename_i v1 f2 h2
      simp at h
      obtain ⟨_, _, rfl⟩ := h
      obtain ⟨p1, s1⟩ := pop_ok_inv h1
      obtain ⟨p2, s2⟩ := pop_ok_inv h2
      refine ⟨by have := s1.top; omega, ⟨?_, ?_, ?_, ?_, ?_, ?_, ?_, ?_, ?_, ?_⟩⟩
      · rw [s2.pc, s1.pc]
      · rw [s2.top, s1.top]; omega
      · rw [s2.blocks, s1.blocks]
      · rw [s2.fblocks, s1.fblocks]
      · rw [s2.dice, s1.dice]
      · rw [s2.details, s1.details]
      · rw [s2.code, s1.code]
      · rw [s2.wodPool, s1.wodPool]
      · rw [s2.dcPool, s1.dcPool]
      · rw [s2.ssize, s1.ssize]
    all_goals simp at h
  all_goals simp at h

theorem pop2_cast {β} {f : Frame} (h : 2 ≤ f.top) : NoStruct (f.pop2.cast : Res β) := by
  apply nostruct_cast_of_ne
  intro s
  unfold Frame.pop2
  rcases (show ∃ v f1, f.pop = .ok (v, f1) by
    unfold Frame.pop; have : (f.top == 0) = false := by simp; omega
    simp [this]) with ⟨v, f1, h1⟩
  rw [h1]
  obtain ⟨_, s1⟩ := pop_ok_inv h1
  rcases (show ∃ v f2, f1.pop = .ok (v, f2) by
    unfold Frame.pop; have : (f1.top == 0) = false := by simp; rw [s1.top]; omega
    simp [this]) with ⟨v', f2, h2⟩
  simp [h2]


theorem popN_go_ok : ∀ (k : Nat) (f : Frame) (acc : List Val) (vs : List Val) (f' : Frame),
    Frame.popN.go k f acc = .ok (vs, f') → k ≤ f.top ∧ SameBut f f' (f.top - k) := by
  intro k
  induction k with
  | zero =>
    intro f acc vs f' h
    simp [Frame.popN.go] at h
    obtain ⟨_, rfl⟩ := h
    exact ⟨by omega, ⟨rfl, by omega, rfl, rfl, rfl, rfl, rfl, rfl, rfl, rfl⟩⟩
  | succ k ih =>
    intro f acc vs f' h
    simp only [Frame.popN.go] at h
    split at h
    · rename_i v f1 h1
      obtain ⟨p1, s1⟩ := pop_ok_inv h1
      obtain ⟨p2, s2⟩ := ih _ _ _ _ h
      refine ⟨by have := s1.top; omega, ⟨?_, ?_, ?_, ?_, ?_, ?_, ?_, ?_, ?_, ?_⟩⟩
      · rw [s2.pc, s1.pc]
      · rw [s2.top, s1.top]; omega
      · rw [s2.blocks, s1.blocks]
      · rw [s2.fblocks, s1.fblocks]
      · rw [s2.dice, s1.dice]
      · rw [s2.details, s1.details]
      · rw [s2.code, s1.code]
      · rw [s2.wodPool, s1.wodPool]
      · rw [s2.dcPool, s1.dcPool]
      · rw [s2.ssize, s1.ssize]
    all_goals simp at h

theorem popN_ok_inv {f : Frame} {n : Int} {vs : List Val} {f' : Frame} (h : f.popN n = .ok (vs, f')) :
    n.toNat ≤ f.top ∧ SameBut f f' (f.top - n.toNat) := by
  unfold Frame.popN at h
  split at h
  · rename_i vs0 f0 h0
    obtain ⟨p, sb⟩ := popN_go_ok _ _ _ _ _ h0
    simp at h
    obtain ⟨_, rfl⟩ := h
    refine ⟨p, ?_⟩
    split
    · exact ⟨sb.pc, sb.top, sb.blocks, sb.fblocks, sb.dice, sb.details, sb.code, sb.wodPool, sb.dcPool, sb.ssize⟩
    · exact sb
  · rename_i hne
    exfalso
    cases hgo : Frame.popN.go n.toNat f [] with
    | ok p => exact hne p.1 p.2 (by rw [hgo])
    | _ => rw [hgo] at h; simp at h

theorem popN_go_nopanic : ∀ (k : Nat) (f : Frame) (acc : List Val), k ≤ f.top → ∃ p, Frame.popN.go k f acc = .ok p := by
  intro k
  induction k with
  | zero => intro f acc _; exact ⟨_, rfl⟩
  | succ k ih =>
    intro f acc hk
    simp only [Frame.popN.go]
    rcases pop_cases f with ⟨h0, _⟩ | ⟨hpos, hp⟩
    · omega
    · rw [hp]
      exact ih _ _ (by simp; omega)

theorem popN_cast {β} {f : Frame} {n : Int} (h : n.toNat ≤ f.top) : NoStruct ((f.popN n).cast : Res β) := by
  apply nostruct_cast_of_ne
  intro s
  obtain ⟨p, hp⟩ := popN_go_nopanic n.toNat f [] h
  unfold Frame.popN
  rw [hp]
  simp


theorem nostruct_of_isPanic {α} {r : Res α} (h : r.isPanic = false) : NoStruct r := by
  intro s hs; subst hs; simp [Res.isPanic] at h

theorem nostruct_cast {α β} {r : Res α} (h : NoStruct r) : NoStruct (r.cast : Res β) := by
  intro s hs
  cases r <;> simp [Res.cast] at hs
  subst hs; exact h _ rfl

theorem nostruct_ok {α} (a : α) : NoStruct (Res.ok a) := by intro s hs; cases hs
theorem nostruct_err {α} (e : String) : NoStruct (Res.err e : Res α) := by intro s hs; cases hs
theorem nostruct_unsup {α} (e : String) : NoStruct (Res.unsup e : Res α) := by intro s hs; cases hs
theorem nostruct_diverge {α} : NoStruct (Res.diverge : Res α) := by intro s hs; cases hs
theorem nostruct_panic_lit {α} (s : String) (h : Structural s = false) : NoStruct (Res.panic s : Res α) := by
  intro s' hs; cases hs; exact h

theorem renderDetail_nostruct (h : Heap) (src : List Nat) (off : Nat) (spans : List Span) (ret : String) :
    NoStruct (renderDetail h src off spans ret) := by
  unfold renderDetail
  simp only []
  repeat' split
  all_goals first
    | exact nostruct_ok _
    | exact nostruct_panic_lit _ (by decide)

theorem sub_panic {sub : SubRun} (hsub : NoStructSub sub) {g : G} {fr : Frame} {g' : G} {s : String}
    (h : sub g fr = (g', .panic s)) : Structural s = false := by
  have := hsub g fr; rw [h] at this; exact this s rfl

theorem of_eq_panic {α} {r : Res α} (hr : NoStruct r) {s : String} (h : r = .panic s) : Structural s = false := hr s h

/-- close a leaf `NoStruct (literal or propagated result)` -/
macro "ns_leaf" : tactic => `(tactic| first
  | exact nostruct_ok _
  | exact nostruct_err _
  | exact nostruct_unsup _
  | exact nostruct_diverge
  | exact nostruct_panic_lit _ (by decide)
  | (intro s' hs'; cases hs'; exact sub_panic ‹NoStructSub _› ‹_›)
  | (intro s' hs'; cases hs'; exact of_eq_panic (renderDetail_nostruct _ _ _ _ _) ‹_›))

macro "split_all" : tactic => `(tactic| repeat' (first | split | (dsimp only)))

theorem computedExecuteCore_nostruct (sub : SubRun) (hsub : NoStructSub sub) (g : G) (c a : Nat) :
    NoStruct (computedExecuteCore sub g c a).2 := by
  unfold computedExecuteCore
  split_all
  all_goals ns_leaf

theorem withCall_nostruct {α} (g : G) (k : G → G × Res α) (h : ∀ g', NoStruct (k g').2) : NoStruct (withCall g k).2 := by
  unfold withCall
  split
  · exact nostruct_err _
  · exact h _

theorem computedExecute_nostruct (sub : SubRun) (hsub : NoStructSub sub) (g : G) (c a : Nat) :
    NoStruct (computedExecute sub g c a).2 :=
  withCall_nostruct g _ (fun g' => computedExecuteCore_nostruct sub hsub g' c a)


theorem walk_nostruct (sub : SubRun) (hsub : NoStructSub sub) (c : Nat) (name : String) (isRaw : Bool) :
    ∀ (fuel : Nat) (g : G) (cur : Nat), NoStruct (loadName.walk sub c name isRaw fuel g cur).2 := by
  intro fuel
  induction fuel with
  | zero => intro g cur; unfold loadName.walk; exact nostruct_diverge
  | succ n ih =>
    intro g cur
    unfold loadName.walk
    split_all
    all_goals first
      | exact ih _ _
      | ns_leaf
      | (intro s' hs'; cases hs'; exact of_eq_panic (computedExecute_nostruct _ ‹_› _ _ _) (by rw [‹computedExecute _ _ _ _ = _›]))
      | skip

theorem loadName_nostruct (sub : SubRun) (hsub : NoStructSub sub) (g : G) (c : Nat) (name : String) (isRaw : Bool) :
    NoStruct (loadName sub g c name isRaw).2 := by
  unfold loadName
  exact walk_nostruct sub hsub c name isRaw _ _ _

macro "ns_leaf2" : tactic => `(tactic| first
  | ns_leaf
  | (intro s' hs'; cases hs'; exact of_eq_panic (computedExecute_nostruct _ ‹_› _ _ _) (by rw [‹computedExecute _ _ _ _ = _›]))
  | (intro s' hs'; cases hs'; exact of_eq_panic (loadName_nostruct _ ‹_› _ _ _ _) (by rw [‹loadName _ _ _ _ _ = _›])))

theorem funcInvokeCore_nostruct (sub : SubRun) (hsub : NoStructSub sub) (g : G) (c a : Nat) (args : List Val) :
    NoStruct (funcInvokeCore sub g c a args).2 := by
  unfold funcInvokeCore
  split_all
  all_goals ns_leaf2

theorem funcInvoke_nostruct (sub : SubRun) (hsub : NoStructSub sub) (g : G) (c a : Nat) (args : List Val) :
    NoStruct (funcInvoke sub g c a args).2 :=
  withCall_nostruct g _ (fun g' => funcInvokeCore_nostruct sub hsub g' c a args)

theorem attrGet_nostruct (sub : SubRun) (hsub : NoStructSub sub) (g : G) (c : Nat) (v : Val) (name : String) :
    NoStruct (attrGet sub g c v name).2 := by
  unfold attrGet
  split_all
  all_goals ns_leaf2

def NS {α} (p : G × Res α) : Prop := NoStruct p.2

theorem ns_ite {α} {c : Prop} [Decidable c] {a b : G × Res α} (ha : c → NS a) (hb : ¬c → NS b) : NS (if c then a else b) := by
  by_cases h : c
  · rw [if_pos h]; exact ha h
  · rw [if_neg h]; exact hb h

set_option maxHeartbeats 1600000 in
theorem nativeCall_nostruct (sub : SubRun) (hsub : NoStructSub sub) (g : G) (c : Nat) (name : String) (st sa : Nat) (params : List Val) :
    NS (nativeCall sub g c name st sa params) := by
  unfold nativeCall
  extract_lets ps want p0 numOnly l kv
  clear_value p0 want ps l kv
  have hnum : ∀ fname f, NS (numOnly fname f) := by
    intro fname f
    simp only [numOnly]
    split <;> (unfold NS; ns_leaf)
  clear_value numOnly
  repeat' (first | (apply ns_ite <;> intro _) | exact hnum _ _ | split)
  all_goals (try unfold NS)
  all_goals (try dsimp only)
  all_goals (try ns_leaf2)


theorem pop_eq (f : Frame) (h : 0 < f.top) :
    f.pop = .ok (f.stack[f.top - 1]!, { f with top := f.top - 1, lastPop := .slot (f.top - 1) }) := by
  rcases pop_cases f with ⟨h0, _⟩ | ⟨_, hp⟩
  · omega
  · exact hp

theorem pop2_eq (f : Frame) (h : 2 ≤ f.top) :
    f.pop2 = .ok (f.stack[f.top - 1 - 1]!, f.stack[f.top - 1]!, { f with top := f.top - 1 - 1, lastPop := .slot (f.top - 1 - 1) }) := by
  unfold Frame.pop2
  rw [pop_eq f (by omega)]
  dsimp only
  rw [pop_eq _ (by dsimp only; omega)]

theorem sstep_simple {size p q : Nat} {s : SK} {succs : List SK} (h : sstep size (.simple p q) s = some succs) :
    p ≤ s.top ∧ succs = [{ s with top := s.top - p + q, pc := s.pc + 1 }] := by
  simp only [sstep] at h
  by_cases ht : s.top < p
  · simp [ht] at h
  · simp [ht] at h; exact ⟨by omega, h.symm⟩


theorem match_of_sameBut {F f' : Frame} {t : Nat} (sb : SameBut F f' t) (s : SK) (h1 : s.pc = F.pc) (h2 : s.top = t)
    (h3 : s.blocks = F.blocks) (h4 : s.fblocks = F.fblocks) (h5 : s.dice = F.dice.length) (h6 : s.det = F.details.length) :
    skMatches f' s = true := by
  simp only [skMatches, Bool.and_eq_true, beq_iff_eq]
  rw [sb.pc, sb.top, sb.blocks, sb.fblocks, sb.dice, sb.details]
  exact ⟨⟨⟨⟨⟨h1, h2⟩, h3⟩, h4⟩, h5⟩, h6⟩

theorem sameBut_refl (F : Frame) : SameBut F F F.top := ⟨rfl, rfl, rfl, rfl, rfl, rfl, rfl, rfl, rfl, rfl⟩

theorem ns_of_eq_snd {α β} {p : α × Res β} {a : α} {r : Res β} (h : p = (a, r)) (hp : NoStruct p.2) : NoStruct r := by
  subst h; exact hp

/-- the frame a push writes to has room: it is `f` after pops (explicit record updates once the pops are rewritten) -/
macro "room" : tactic => `(tactic| first
  | assumption
  | (dsimp only; omega)
  | (simp only []; omega)
  | omega)

/-- closes the `code` / `stack size` conjuncts of a `.next` leaf -/
macro "fin_sb" sb:term : tactic => `(tactic| first
  | trivial | rfl | exact ($sb).code | exact ($sb).ssize | exact ⟨($sb).code, ($sb).ssize⟩ | exact ⟨rfl, rfl⟩
  | exact ⟨rfl, ($sb).ssize⟩ | exact ⟨($sb).code, rfl⟩
  | (refine ⟨?_, ?_⟩ <;> first | rfl | exact ($sb).code | exact ($sb).ssize))

open DS.Props.C01 in
/-- leaf: a `.stop` whose result comes from a callee that never reports a structural panic -/
macro "leaf_ns" : tactic => `(tactic| first
  | ns_leaf
  | exact push_cast _ _ (by room)
  | exact nostruct_cast (nostruct_of_isPanic (DS.Props.C01.itemGet_total _ _ _))
  | exact nostruct_cast (ns_of_eq_snd ‹_› (nostruct_of_isPanic (DS.Props.C01.binOp_total _ _ _ _ _)))
  | exact nostruct_cast (ns_of_eq_snd ‹_› (nostruct_of_isPanic (DS.Props.C01.itemSet_total _ _ _ _)))
  | exact nostruct_cast (ns_of_eq_snd ‹_› (nostruct_of_isPanic (DS.Props.C01.getSlice_total _ _ _ _)))
  | exact nostruct_cast (ns_of_eq_snd ‹_› (nostruct_of_isPanic (DS.Props.C01.setSlice_total _ _ _ _ _)))
  | exact nostruct_cast (ns_of_eq_snd ‹_› (funcInvoke_nostruct _ ‹NoStructSub _› _ _ _ _))
  | exact nostruct_cast (ns_of_eq_snd ‹_› (nativeCall_nostruct _ ‹NoStructSub _› _ _ _ _ _ _))
  | exact nostruct_cast (ns_of_eq_snd ‹_› (loadName_nostruct _ ‹NoStructSub _› _ _ _ _))
  | exact nostruct_cast (ns_of_eq_snd ‹_› (attrGet_nostruct _ ‹NoStructSub _› _ _ _ _)))

/-- leaf: `.next` after a final push onto a frame whose skeleton part is known -/
macro "leaf_push" : tactic => `(tactic| (
  have sb := push_ok_inv ‹Frame.push _ _ = Res.ok _›
  (refine ⟨_, List.mem_singleton.mpr rfl, match_of_sameBut sb _ rfl (by first | rfl | (dsimp only [skOfFrame]; omega) | (simp only [skOfFrame]; omega)) rfl rfl rfl rfl, ?_⟩; fin_sb sb)))

/-- leaf: `.next` with an explicit frame -/
macro "leaf_here" : tactic => `(tactic|
  (refine ⟨_, List.mem_singleton.mpr rfl, match_of_sameBut (sameBut_refl _) _ rfl (by first | rfl | (dsimp only [skOfFrame]; omega) | (simp only [skOfFrame]; omega)) rfl rfl rfl rfl, ?_⟩; fin_sb (sameBut_refl _)))

abbrev Goal (sub : SubRun) (g : G) (f : Frame) (wod dc : Bool) (ins : Instr) : Prop :=
  Room f → f.top < f.stack.size → ∀ succs, sstep f.code.size (kindOf ins) (skOfFrame f wod dc) = some succs →
    Post (fun f' => ∃ s' ∈ succs, skMatches f' s' = true ∧ f'.code = f.code ∧ f'.stack.size = f.stack.size) (exec sub g f ins)

theorem sstep_peek {size n : Nat} {s : SK} {succs : List SK} (h : sstep size (.peek n) s = some succs) :
    n ≤ s.top ∧ succs = [{ s with pc := s.pc + 1 }] := by
  simp only [sstep] at h
  by_cases ht : s.top < n
  · simp [ht] at h
  · simp [ht] at h; exact ⟨by omega, h.symm⟩

theorem sstep_jmp {size : Nat} {off : Option Int} {s : SK} {succs : List SK} (h : sstep size (.jmp off) s = some succs) :
    ∃ t, target size s.pc off = some t ∧ succs = [{ s with pc := t }] := by
  simp only [sstep] at h
  cases ht : target size s.pc off with
  | none => simp [ht] at h
  | some t => simp [ht] at h; exact ⟨t, rfl, h.symm⟩

theorem sstep_je {size : Nat} {off : Option Int} {s : SK} {succs : List SK} (h : sstep size (.je off) s = some succs) :
    1 ≤ s.top ∧ ∃ t, target size s.pc off = some t ∧
      succs = [{ s with pc := s.pc + 1, top := s.top - 1 }, { s with pc := t, top := s.top - 1 }] := by
  simp only [sstep] at h
  by_cases ht : s.top < 1
  · simp [ht] at h
  · simp only [ht, if_false] at h
    cases hg : target size s.pc off with
    | none => simp [hg] at h
    | some t => simp [hg] at h; exact ⟨by omega, t, rfl, h.symm⟩

theorem sstep_jne {size : Nat} {off : Option Int} {s : SK} {succs : List SK} (h : sstep size (.jne off) s = some succs) :
    1 ≤ s.top ∧ ∃ t, target size s.pc off = some t ∧
      succs = [{ s with pc := s.pc + 1, top := s.top - 1 }, { s with pc := t, top := s.top - 1 }] := by
  simp only [sstep] at h
  by_cases ht : s.top < 1
  · simp [ht] at h
  · simp only [ht, if_false] at h
    cases hg : target size s.pc off with
    | none => simp [hg] at h
    | some t => simp [hg] at h; exact ⟨by omega, t, rfl, h.symm⟩

theorem sstep_jeDup {size : Nat} {off : Option Int} {s : SK} {succs : List SK} (h : sstep size (.jeDup off) s = some succs) :
    1 ≤ s.top ∧ ∃ t, target size s.pc off = some t ∧
      succs = [{ s with pc := s.pc + 1, top := s.top - 1 }, { s with pc := t }] := by
  simp only [sstep] at h
  by_cases ht : s.top < 1
  · simp [ht] at h
  · simp only [ht, if_false] at h
    cases hg : target size s.pc off with
    | none => simp [hg] at h
    | some t => simp [hg] at h; exact ⟨by omega, t, rfl, h.symm⟩

theorem sstep_blockPush {size : Nat} {s : SK} {succs : List SK} (h : sstep size .blockPush s = some succs) :
    succs = [{ s with blocks := s.top :: s.blocks, pc := s.pc + 1 }] := by
  simp [sstep] at h; exact h.symm

theorem sstep_fstrPush {size : Nat} {s : SK} {succs : List SK} (h : sstep size .fstrPush s = some succs) :
    succs = [{ s with fblocks := s.top :: s.fblocks, pc := s.pc + 1 }] := by
  simp [sstep] at h; exact h.symm

theorem sstep_blockPop {size : Nat} {s : SK} {succs : List SK} (h : sstep size .blockPop s = some succs) :
    ∃ t r, s.blocks = t :: r ∧ succs = [{ s with top := t + 1, blocks := r, pc := s.pc + 1 }] := by
  simp only [sstep] at h
  cases hb : s.blocks with
  | nil => simp [hb] at h
  | cons t r => simp [hb] at h; exact ⟨t, r, rfl, h.symm⟩

theorem sstep_fstrPop {size : Nat} {s : SK} {succs : List SK} (h : sstep size .fstrPop s = some succs) :
    ∃ t r, s.fblocks = t :: r ∧ (t = s.top ∨ 0 < s.top) ∧ succs = [{ s with top := t + 1, fblocks := r, pc := s.pc + 1 }] := by
  simp only [sstep] at h
  cases hb : s.fblocks with
  | nil => simp [hb] at h
  | cons t r =>
    simp only [hb] at h
    by_cases hc : (t != s.top && s.top == 0) = true
    · simp [hc] at h
    · simp only [hc, Bool.false_eq_true, if_false] at h
      simp at h
      refine ⟨t, r, rfl, ?_, h.symm⟩
      simp at hc
      by_cases e : t = s.top
      · exact Or.inl e
      · right; have := hc e; omega

theorem sstep_diceInit {size : Nat} {s : SK} {succs : List SK} (h : sstep size .diceInit s = some succs) :
    succs = [{ s with dice := s.dice + 1, pc := s.pc + 1 }] := by
  simp [sstep] at h; exact h.symm

theorem sstep_markDetail {size : Nat} {s : SK} {succs : List SK} (h : sstep size .markDetail s = some succs) :
    succs = [{ s with det := s.det + 1, pc := s.pc + 1 }] := by
  simp [sstep] at h; exact h.symm

theorem sstep_wodInit {size : Nat} {s : SK} {succs : List SK} (h : sstep size .wodInit s = some succs) :
    succs = [{ s with wod := true, pc := s.pc + 1 }] := by
  simp [sstep] at h; exact h.symm

theorem sstep_dcInit {size : Nat} {s : SK} {succs : List SK} (h : sstep size .dcInit s = some succs) :
    succs = [{ s with dc := true, pc := s.pc + 1 }] := by
  simp [sstep] at h; exact h.symm

theorem sstep_diceSet {size : Nat} {s : SK} {succs : List SK} (h : sstep size .diceSet s = some succs) :
    1 ≤ s.top ∧ 1 ≤ s.dice ∧ succs = [{ s with top := s.top - 1, pc := s.pc + 1 }] := by
  simp [sstep] at h
  obtain ⟨hc, hh⟩ := h
  exact ⟨by omega, by omega, hh.symm⟩

theorem sstep_dice {size : Nat} {s : SK} {succs : List SK} (h : sstep size .dice s = some succs) :
    1 ≤ s.top ∧ 1 ≤ s.dice ∧ 1 ≤ s.det ∧ succs = [{ s with dice := s.dice - 1, pc := s.pc + 1 }] := by
  simp [sstep] at h
  obtain ⟨hc, hh⟩ := h
  exact ⟨by omega, by omega, by omega, hh.symm⟩

theorem sstep_detUse {size p q : Nat} {s : SK} {succs : List SK} (h : sstep size (.detUse p q) s = some succs) :
    p ≤ s.top ∧ 1 ≤ s.det ∧ succs = [{ s with top := s.top - p + q, pc := s.pc + 1 }] := by
  simp [sstep] at h
  obtain ⟨hc, hh⟩ := h
  exact ⟨by omega, by omega, hh.symm⟩

theorem sstep_defExpr {size : Nat} {s : SK} {succs : List SK} (h : sstep size .defExpr s = some succs) :
    1 ≤ s.det ∧ 1 ≤ s.dice ∧ succs = [{ s with top := s.top + 1, pc := s.pc + 1 }] := by
  simp [sstep] at h
  obtain ⟨hc, hh⟩ := h
  exact ⟨by omega, by omega, hh.symm⟩

theorem sstep_wodSet {size : Nat} {s : SK} {succs : List SK} (h : sstep size .wodSet s = some succs) :
    1 ≤ s.top ∧ succs = [{ s with top := s.top - 1, pc := s.pc + 1 }] := by
  simp [sstep] at h
  obtain ⟨hc, hh⟩ := h
  exact ⟨by omega, hh.symm⟩

theorem sstep_dcSet {size : Nat} {s : SK} {succs : List SK} (h : sstep size .dcSet s = some succs) :
    1 ≤ s.top ∧ succs = [{ s with top := s.top - 1, pc := s.pc + 1 }] := by
  simp [sstep] at h
  obtain ⟨hc, hh⟩ := h
  exact ⟨by omega, hh.symm⟩

theorem sstep_wodRoll {size : Nat} {s : SK} {succs : List SK} (h : sstep size .wodRoll s = some succs) :
    1 ≤ s.top ∧ 1 ≤ s.det ∧ succs = [{ s with pc := s.pc + 1 }] := by
  simp [sstep] at h
  obtain ⟨hc, hh⟩ := h
  exact ⟨by omega, by omega, hh.symm⟩

theorem sstep_dcRoll {size : Nat} {s : SK} {succs : List SK} (h : sstep size .dcRoll s = some succs) :
    1 ≤ s.top ∧ 1 ≤ s.det ∧ succs = [{ s with pc := s.pc + 1 }] := by
  simp [sstep] at h
  obtain ⟨hc, hh⟩ := h
  exact ⟨by omega, by omega, hh.symm⟩


end DS.VM
