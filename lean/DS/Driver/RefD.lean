import DS.Driver.VMD
import DS.Model.RefEval
import DS.Model.Frag
namespace DS.Driver
open DS.VM DS.Ref

inductive SExp where
  | atom (s : String)
  | list (l : List SExp)
  deriving Inhabited

partial def parseSExp : List String → Option (SExp × List String)
  | [] => none
  | "(" :: rest =>
    let rec items (toks : List String) (acc : List SExp) : Option (SExp × List String) :=
      match toks with
      | ")" :: r => some (.list acc.reverse, r)
      | [] => none
      | _ =>
        match parseSExp toks with
        | some (x, r) => items r (x :: acc)
        | none => none
    items rest []
  | ")" :: _ => none
  | a :: rest => some (.atom a, rest)

def hexAtom : SExp → Option String
  | .atom a => if a == "-" then some "" else hexStr a
  | _ => none

mutual
partial def toE : SExp → Option E
  | .atom "n" => some .null
  | .atom "brk" => some .brk
  | .atom "cont" => some .cont
  | .list [.atom "i", .atom n] => n.toInt?.map .int
  | .list [.atom "f", .atom b] => (floatOfBitsHex b).map .flt
  | .list [.atom "s", h] => (hexAtom h).map .str
  | .list (.atom "arr" :: es) => (es.mapM toE).map .arr
  | .list (.atom "dict" :: kvs) =>
    (kvs.mapM (fun (kv : SExp) => match kv with
      | .list [k, v] => (do let k' ← toE k; let v' ← toE v; pure (k', v'))
      | _ => none)).map .dict
  | .list [.atom "range", a, b] => do pure (.range (← toE a) (← toE b))
  | .list [.atom "var", h] => (hexAtom h).map .var
  | .list [.atom "asg", h, e] => do pure (.assign (← hexAtom h) (← toE e))
  | .list [.atom "neg", e] => (toE e).map .neg
  | .list [.atom "pos", e] => (toE e).map .pos
  | .list [.atom "bin", .atom op, a, b] => do pure (.bin (← parseBin op) (← toE a) (← toE b))
  | .list [.atom "and", a, b] => do pure (.land (← toE a) (← toE b))
  | .list [.atom "or", a, b] => do pure (.lor (← toE a) (← toE b))
  | .list [.atom "tern", c, a, b] => do pure (.tern (← toE c) (← toE a) (← toE b))
  | .list (.atom "ternm" :: cs) =>
    (cs.mapM (fun (kv : SExp) => match kv with
      | .list [k, v] => (do let k' ← toE k; let v' ← toE v; pure (k', v'))
      | _ => none)).map .ternm
  | .list [.atom "idx", a, i] => do pure (.index (← toE a) (← toE i))
  | .list [.atom "slc", a, lo, hi] => do pure (.slice (← toE a) (← toOpt lo) (← toOpt hi))
  | .list [.atom "attr", a, h] => do pure (.attr (← toE a) (← hexAtom h))
  | .list (.atom "call" :: f :: args) => do pure (.call (← toE f) (← args.mapM toE))
  | .list [.atom "iset", a, i, v] => do pure (.iset (← toE a) (← toE i) (← toE v))
  | .list [.atom "aset", o, at', v] => do pure (.aset (← hexAtom o) (← hexAtom at') (← toE v))
  | .list [.atom "sset", a, lo, hi, v] => do pure (.sset (← toE a) (← toOpt lo) (← toOpt hi) (← toE v))
  | .list (.atom "tmpl" :: ps) =>
    (ps.mapM (fun (p : SExp) => match p with
      | .list [.atom "t", h] => (hexAtom h).map Sum.inl
      | .list [.atom "h", e] => (toE e).map Sum.inr
      | _ => none)).map .tmpl
  | .list [.atom "dice", t, s, .atom keep, k, mn, mx] =>
    do pure (.dice (← toOpt t) (← toOpt s) (← keep.toInt?) (← toOpt k) (← toOpt mn) (← toOpt mx))
  | .list (.atom "seq" :: ss) => (ss.mapM toE).map .seq
  | .list [.atom "if", c, t, e] => do pure (.ite (← toE c) (← toE t) (← toOpt e))
  | .list [.atom "while", c, b] => do pure (.while_ (← toE c) (← toE b))
  | .list [.atom "func", n, .list ps, .atom id] => do pure (.func (← hexAtom n) (← ps.mapM hexAtom) (← id.toNat?))
  | .list [.atom "ret", e] => do pure (.ret (← toOpt e))
  | .list [.atom "comp", n, .atom id] => do pure (.comp (← hexAtom n) (← id.toNat?))
  | _ => none

partial def toOpt : SExp → Option (Option E)
  | .atom "_" => some none
  | x => (toE x).map some
end

/-- refeval <cfg> ( tbl e0 e1 … ) ( progs p0 p1 … ) : the programs are evaluated in order in one global scope -/
def refLine (toks : List String) : String :=
  match toks with
  | "refeval" :: cfg :: rest =>
    (match parseSExp rest with
     | some (.list (.atom "tbl" :: tb), rest2) =>
       (match parseSExp rest2 with
        | some (.list (.atom "progs" :: ps), []) =>
          (match tb.mapM toE, ps.mapM toE with
           | some tbl, some progs =>
             let (heap, attrs) := Heap.alloc (#[] : Heap) (.dict [])
             let g0 : G := { heap := heap, rng := 1, cfg := parseCfgTok cfg, ctxs := #[{ attrs := attrs, up := none, numOp := 0, depth := 0 }],
                             stLog := [], src := [] }
             let env : Env := { tbl := tbl.toArray }
             let rec go (g : G) (l : List E) (outs : List String) : G × List String :=
               match l with
               | [] => (g, outs.reverse)
               | p :: r =>
                 let (g', o) := eval env g 0 p
                 let s := match o with
                   | .val v => "ok " ++ canonVal g'.heap [] 0 (v.getD .null)
                   | .ret v => "ok " ++ canonVal g'.heap [] 0 v
                   | .brk | .cont => "unsup break/continue at top level"
                   | .fail (.err e) => "err " ++ hx e
                   | .fail (.panic s) => "panic " ++ s
                   | .fail (.unsup w) => "unsup " ++ w
                   | .fail .diverge => "diverge"
                   | .fail (.ok _) => "unsup"
                 go g' r (s :: outs)
             let (g, outs) := go g0 progs []
             " | ".intercalate outs ++ " | vars=" ++ canonAttrsOf g.heap attrs
           | _, _ => "bad-ast")
        | _ => "bad-ast")
     | _ => "bad-ast")
  | _ => "bad-op"


partial def toF : SExp → Option DS.Frag.F
  | .list [.atom "i", .atom n] => n.toInt?.map .lit
  | .list [.atom "bin", .atom op, a, b] => do pure (.bin (← parseBin op) (← toF a) (← toF b))
  | .list [.atom "neg", a] => (toF a).map .neg
  | .list [.atom "pos", a] => (toF a).map .pos
  | .list [.atom "f", .atom bits] => (floatOfBitsHex bits).map .flt
  | .list [.atom "s", h] => (hexAtom h).map .str
  | .atom "n" => some .nul
  | .list [.atom "tern", c, a, b] => do pure (.tern (← toF c) (← toF a) (← toF b))
  | .list [.atom "or", a, b] => do pure (.lor (← toF a) (← toF b))
  | .list [.atom "and", a, b] => do pure (.land (← toF a) (← toF b))
  | .list [.atom "var", h] => (hexAtom h).map (fun s => .var s 0 0)
  | .list [.atom "asg", h, a] => do pure (.asg (← hexAtom h) (← toF a))
  | _ => none

/-- Go's %x: no leading zeros (a single 0 for zero) -/
def trimHex (s : String) : String :=
  let t := (s.toList.dropWhile (· == '0'))
  if t.isEmpty then "0" else String.ofList t

mutual
/-- a statement list of the fragment: expression statements and `if` statements (an absent else = `_`) -/
partial def toSts : List SExp → Option DS.Frag.Sts
  | [] => some .nil
  | .list [.atom "if", c, .list (.atom "seq" :: a), els] :: rest => do
    let b ← (match els with
      | .atom "_" => some DS.Frag.Sts.nil
      | .list (.atom "seq" :: b) => toSts b
      | _ => none)
    pure (.ite (← toF c) (← toSts a) b (← toSts rest))
  | x :: rest => do pure (.expr (← toF x) (← toSts rest))
end

def binTok : BinOp → String
  | .add => "add" | .sub => "sub" | .mul => "mul" | .div => "div" | .mod => "mod" | .pow => "pow"
  | .nullCoalescing => "nullCoalescing" | .lt => "comp.lt" | .le => "comp.le" | .eq => "comp.eq" | .ne => "comp.ne"
  | .ge => "comp.ge" | .gt => "comp.gt" | .bitAnd => "&" | .bitOr => "|"

def instrTok : Instr → String
  | .pushInt i => s!"push.int=i{i}"
  | .bin op => binTok op
  | .neg => "neg"
  | .pos => "pos"
  | .pushFlt x => "push.flt=f" ++ trimHex (natToHex x.toBits.toNat 16)
  | .pushStr x => "push.str=s" ++ hx x
  | .pushNull => "push.null"
  | .jne (some o) => s!"jne=i{o}"
  | .jmp (some o) => s!"jmp=i{o}"
  | .jeDup (some o) => s!"je.dup=i{o}"
  | .pushLast => "push.last"
  | .logicAnd => "and"
  | .halt => "halt"
  | .blockPush => "block.push"
  | .blockPop => "block.pop"
  | .markDetail _ _ => "mark.detail=d_"        -- the extent operands are the source positions: compared as a placeholder
  | .ldD n => "ld.d=s" ++ hx n
  | .store n => "store=s" ++ hx n
  | _ => "?"

/-- fragc ( tree ) : the fragment compiler's output in the bytecode-dump token format -/
def fragcLine (toks : List String) : String :=
  match toks with
  | "fragc" :: rest =>
    (match parseSExp rest with
     | some (sx, []) =>
       (match toF sx with
        | some e => "[ " ++ " ".intercalate ((DS.Frag.compile e ++ [Instr.halt]).map instrTok) ++ " ]"
        | none =>
          -- a statement sequence of fragment expressions
          (match sx with
           | .list (.atom "seq" :: stmts) =>
             (match toSts stmts with
              | some ss => "[ " ++ " ".intercalate ((DS.Frag.compileSts ss ++ [Instr.halt]).map instrTok) ++ " ]"
              | none => "not-in-fragment")
           | _ => "not-in-fragment"))
     | _ => "bad-ast")
  | _ => "bad-op"

end DS.Driver
