/-
  The edit-list layer of the `^st` command for plain assignments: <name><binder?><digits><separator?> …
  (roll.peg: st_assign_multi <- (st_assign sp ','? sp)+ ; st_assign alternatives `name2r sp (':' / '=') sp est` and `name1r est`).
  `P` says which characters may occur in an unquoted name (xidStart in the grammar).
-/
namespace DS.StList

def isDigit (c : Char) : Bool := '0' ≤ c && c ≤ '9'
def isSpace (c : Char) : Bool := c == ' '
def isBinder (c : Char) : Bool := c == ':' || c == '='

/-- optional binder, blanks allowed around it -/
def skipBinder (r : List Char) : List Char :=
  match r.dropWhile isSpace with
  | c :: t => if isBinder c then t.dropWhile isSpace else r
  | [] => r

/-- separator: blanks, an optional comma, blanks -/
def skipSep (r : List Char) : List Char :=
  match r.dropWhile isSpace with
  | ',' :: t => t.dropWhile isSpace
  | r3 => r3

/-- reads one edit; `none` = no edit starts here -/
def readOne (P : Char → Bool) (l : List Char) : Option ((List Char × List Char) × List Char) :=
  if (l.takeWhile P).isEmpty then none else
  let r2 := skipBinder (l.dropWhile P)
  if (r2.takeWhile isDigit).isEmpty then none else
  some ((l.takeWhile P, r2.takeWhile isDigit), skipSep (r2.dropWhile isDigit))

def readEdits (P : Char → Bool) : Nat → List Char → Option (List (List Char × List Char))
  | 0, _ => none
  | _, [] => some []
  | fuel+1, l =>
    match readOne P l with
    | none => none
    | some (e, rest) =>
      match readEdits P fuel rest with
      | none => none
      | some es => some (e :: es)

structure Edit where
  name : List Char
  val : List Char
  pre : Nat := 0               -- blanks before the binder
  binder : Option Char := none
  post : Nat := 0              -- blanks after the binder
  sepA : Nat := 0              -- blanks before the comma
  comma : Bool := false
  sepB : Nat := 0              -- blanks after the comma
  deriving Repr

def blanks (n : Nat) : List Char := List.replicate n ' '

def Edit.print (e : Edit) : List Char :=
  e.name ++ (match e.binder with | some c => blanks e.pre ++ [c] ++ blanks e.post | none => []) ++ e.val ++
  blanks e.sepA ++ (if e.comma then [','] else []) ++ blanks e.sepB

def printAll (es : List Edit) : List Char := es.flatMap Edit.print

end DS.StList
