package main

import (
	"fmt"
	"sort"
	"strings"

	ds "github.com/sealdice/dicescript"
)

// vmap <op>... : L:k load, S:k:v store, O:k:v loadOrStore, D:k loadAndDelete, X:k delete, C clear, R range, N length.
// prints "<ret> @ <shape>" per op, joined by " ; "
func vmapLine(t []string) string {
	m := &ds.ValueMap{}
	var outs []string
	show := func(v *ds.VMValue, ok bool) string {
		if !ok {
			return "none"
		}
		return "v=" + v.ToString()
	}
	for _, op := range t[1:] {
		f := strings.Split(op, ":")
		var ret string
		switch {
		case f[0] == "L" && len(f) == 2:
			v, ok := m.Load(f[1])
			ret = show(v, ok)
		case f[0] == "S" && len(f) == 3:
			n, ok := atoi(f[2])
			if !ok {
				return "bad-op"
			}
			m.Store(f[1], ds.NewIntVal(ds.IntType(n)))
			ret = "-"
		case f[0] == "O" && len(f) == 3:
			n, ok := atoi(f[2])
			if !ok {
				return "bad-op"
			}
			v, loaded := m.LoadOrStore(f[1], ds.NewIntVal(ds.IntType(n)))
			ret = fmt.Sprintf("los=%s,%v", v.ToString(), loaded)
		case f[0] == "D" && len(f) == 2:
			v, ok := m.LoadAndDelete(f[1])
			ret = show(v, ok)
		case f[0] == "X" && len(f) == 2:
			m.Delete(f[1])
			ret = "-"
		case f[0] == "C":
			m.Clear()
			ret = "-"
		case f[0] == "R":
			var ps []string
			m.Range(func(k string, v *ds.VMValue) bool {
				ps = append(ps, fmt.Sprintf("%x=%s", k, v.ToString()))
				return true
			})
			sort.Strings(ps)
			ret = "range[" + strings.Join(ps, ",") + "]"
		case f[0] == "N":
			ret = fmt.Sprintf("len=%d", m.Length())
		default:
			return "bad-op"
		}
		outs = append(outs, ret+" @ "+ds.VerifValueMapShape(m))
	}
	return strings.Join(outs, " ; ")
}

func init() { handlers["vmap"] = vmapLine }
