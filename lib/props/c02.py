"""C02 — evaluation agrees with the language's definitional semantics.

Proof: DS/Props/C02.lean — a definitional big-step semantics over the SOURCE TREE (DS/Model/RefEval.lean: no bytecode, no
jumps, no operand stack) and, for the expression/assignment/conditional fragment, a compiler `compile` to VM instructions
with the theorem `compile_correct`: running the compiled code on the VM model leaves exactly the value (or the error) the
definitional semantics prescribes, for every tree of the fragment, every variable state and every surrounding stack.
Tie: (a) `ref` stream — generated source trees are printed by an independent printer that follows the published grammar's
precedence levels (arbitrary legal whitespace, redundant parentheses), run by the real parser+VM, and evaluated as trees by the
definitional semantics in Lean; value / error-ness per program and the variables after each sequence of 1..3 programs on one
VM are compared; (b) `compile` stream — for fragment trees the Lean compiler's output is compared instruction by instruction
with the real compiler's bytecode dump of the printed program; (c) the vm stream ties the VM model to rollvm.go.
"""
import re

from lib.common import Run, hx, unhx, go_child, lean_child
from lib.astgen import AstGen, Printer, Sexp

CANON_F = re.compile(r"F[0-9a-f-]*\([0-9a-f,-]*\)[0-9a-f-]*")
CANON_C = re.compile(r"C[0-9a-f-]+")


def norm(s):
    return CANON_C.sub("C", CANON_F.sub("F", s))


def outcome(tok):
    """'ok <canon> …' -> ('ok', canon) ; 'err <hex> …' -> ('err', hex)"""
    f = tok.split()
    if not f:
        return ("?", "")
    if f[0] == "ok":
        return ("ok", norm(f[1]) if len(f) > 1 else "")
    if f[0] == "err":
        return ("err", f[1] if len(f) > 1 else "")
    return (f[0], " ".join(f[1:3]))


def _alias_corpus():
    """values are built fresh by + : the result of a concatenation shares nothing with its operands, whatever their length
    or history (arrays of every small length, ranges, arrays after pop / shift / push, empty operands, self-concatenation)"""
    out = []
    I = lambda k: ("i", k)
    V = lambda n: ("var", n)
    for L in (1, 2, 3, 4, 5, 6, 7, 8, 9, 11, 13):
        lit = ("arr", [I(k) for k in range(1, L + 1)])
        out.append(("seq", [("asg", "ar1", lit), ("asg", "ar2", ("bin", "add", V("ar1"), ("arr", [I(60)]))), ("asg", "ar3", ("bin", "add", V("ar1"), ("arr", [I(70)]))),
                            ("arr", [V("ar1"), V("ar2"), V("ar3")])]))
        out.append(("seq", [("asg", "ar1", ("range", I(1), I(L))), ("asg", "ar2", ("bin", "add", V("ar1"), ("arr", [I(60)]))), ("asg", "ar3", ("bin", "add", V("ar1"), ("arr", [I(70), I(71)]))),
                            ("iset", V("ar3"), I(0), I(99)), ("arr", [V("ar1"), V("ar2"), V("ar3")])]))
        out.append(("seq", [("asg", "ar1", lit), ("call", ("attr", V("ar1"), "pop"), []), ("asg", "ar2", ("bin", "add", V("ar1"), ("arr", [I(80)]))),
                            ("call", ("attr", V("ar1"), "push"), [I(90)]), ("arr", [V("ar1"), V("ar2")])]))
        out.append(("seq", [("asg", "ar1", lit), ("call", ("attr", V("ar1"), "shift"), []), ("asg", "ar2", ("bin", "add", V("ar1"), V("ar1"))),
                            ("call", ("attr", V("ar1"), "push"), [I(90)]), ("iset", V("ar2"), I(0), I(55)), ("arr", [V("ar1"), V("ar2")])]))
    out.append(("seq", [("asg", "ar1", ("arr", [I(1), I(2), I(3)])), ("asg", "ar2", ("bin", "add", V("ar1"), ("arr", []))), ("iset", V("ar2"), I(0), I(9)), ("arr", [V("ar1"), V("ar2")])]))
    out.append(("seq", [("asg", "ar1", ("arr", [I(1), I(2), I(3)])), ("asg", "ar2", ("bin", "add", ("arr", []), V("ar1"))), ("iset", V("ar2"), I(0), I(9)), ("arr", [V("ar1"), V("ar2")])]))
    out.append(("seq", [("asg", "ar1", ("arr", [I(1), I(2), I(3)])), ("asg", "ar2", ("bin", "mul", V("ar1"), I(2))), ("iset", V("ar2"), I(0), I(9)), ("arr", [V("ar1"), V("ar2")])]))
    out.append(("seq", [("asg", "ar1", ("arr", [I(1), I(2), I(3)])), ("asg", "ar2", ("slc", V("ar1"), I(0), I(2))), ("iset", V("ar2"), I(0), I(9)), ("call", ("attr", V("ar2"), "push"), [I(7)]), ("arr", [V("ar1"), V("ar2")])]))
    return out


def _numeq_corpus():
    """== / != / ordering between floats and ints, in both operand orders, bare and inside containers: a fractional float is never equal
    to an int, an integral one is equal to it (deterministic grid)"""
    out = []
    FL = [1.5, 2.5, -0.5, 3.9, 1.0, 2.0, -1.0, 0.0, 0.999]
    IN = [1, 2, 3, 0, -1]
    for a in FL:
        for b in IN:
            fa, ib = ("f", a), ("i", b)
            rows = []
            for op in ("comp.eq", "comp.ne", "comp.lt", "comp.ge"):
                rows += [("bin", op, fa, ib), ("bin", op, ib, fa)]
            rows += [("bin", "comp.eq", ("arr", [("i", 1), fa]), ("arr", [("i", 1), ib])), ("bin", "comp.eq", ("arr", [ib]), ("arr", [fa])),
                     ("bin", "comp.eq", ("dict", [(("s", "k"), fa)]), ("dict", [(("s", "k"), ib)])),
                     ("bin", "comp.ne", ("dict", [(("s", "k"), ib)]), ("dict", [(("s", "k"), fa)]))]
            out.append(("seq", [("arr", rows)]))
    return out


def _setexpr_corpus():
    """element / attribute / slice assignments in value positions: parenthesised operand, right side of another assignment, list element,
    call argument, function result, condition"""
    I = lambda k: ("i", k)
    V = lambda n: ("var", n)
    D0 = ("asg", "dc1", ("dict", []))
    A0 = ("asg", "ar1", ("arr", [I(1), I(2), I(3)]))
    sets = [("aset", "dc1", "b", I(7)), ("iset", V("dc1"), ("s", "k"), I(8)), ("iset", V("ar1"), I(0), I(9)), ("sset", V("ar1"), I(0), I(1), ("arr", [I(5), I(6)]))]
    out = []
    for st in sets:
        pre = [D0, A0]
        out.append(("seq", pre + [("asg", "x1", st), ("arr", [V("x1"), V("dc1"), V("ar1")])]))
        out.append(("seq", pre + [("bin", "add", ("arr", [I(0)]) if st[0] == "sset" else I(1), st)]))
        out.append(("seq", pre + [("arr", [st, I(4)]), ]))
        out.append(("seq", pre + [("func", "fn1", ["pa1"], None, ("seq", [V("pa1")])), ("call", V("fn1"), [st])]))
        out.append(("seq", [("func", "fn1", ["dc1", "ar1"], None, ("seq", [("asg", "x1", st)])), ("call", V("fn1"), [("dict", []), ("arr", [I(1), I(2), I(3)])])]))
        out.append(("seq", [("func", "fn1", ["dc1", "ar1"], None, ("seq", [st])), ("call", V("fn1"), [("dict", []), ("arr", [I(1), I(2), I(3)])])]))
        out.append(("seq", pre + [("tern", st, I(1), I(2))]))
        out.append(("seq", pre + [st]))
    return out


def _emptyrep_corpus():
    """an empty array times any count is the empty array (the 512 cap is on the LENGTH of the result)"""
    I = lambda k: ("i", k)
    out = []
    for n in (0, 1, 512, 513, 600, 100000):
        out.append(("seq", [("arr", [("call", ("attr", ("bin", "mul", ("arr", []), I(n)), "len"), []), ("bin", "mul", ("arr", []), I(n)), ("bin", "mul", I(n), ("arr", []))])]))
        out.append(("seq", [("asg", "ar1", ("arr", [I(1)])), ("call", ("attr", ("var", "ar1"), "pop"), []), ("bin", "mul", ("var", "ar1"), I(n))]))
    return out


def _loophead_corpus():
    """`continue` goes back to the FIRST instruction of the loop condition, whatever the condition starts with (a literal, a keyword, a
    parenthesis, a unary sign, a name)"""
    I = lambda k: ("i", k)
    V = lambda n: ("var", n)
    out = []
    conds = [("bin", "comp.gt", I(6), V("i1")), ("bin", "comp.lt", ("neg", I(6)), ("neg", V("i1"))), ("bin", "comp.lt", V("i1"), I(6)),
             ("bin", "comp.ne", ("bin", "add", I(0), V("i1")), I(6)), ("tern", ("bin", "comp.lt", V("i1"), I(6)), I(1), I(0))]
    for c in conds:
        out.append(("seq", [("asg", "i1", I(0)), ("asg", "x1", I(0)),
                            ("while", c, ("seq", [("asg", "i1", ("bin", "add", V("i1"), I(1))),
                                                  ("if", ("bin", "comp.eq", ("bin", "mod", V("i1"), I(2)), I(0)), ("seq", [("cont",)]), None),
                                                  ("asg", "x1", ("bin", "add", V("x1"), V("i1")))])),
                            ("arr", [V("x1"), V("i1")])]))
    for c in (I(1), ("i", 7), ("bin", "add", I(1), I(0))):
        out.append(("seq", [("asg", "i1", I(0)), ("asg", "x1", I(0)),
                            ("while", c, ("seq", [("asg", "i1", ("bin", "add", V("i1"), I(1))),
                                                  ("if", ("bin", "comp.gt", V("i1"), I(5)), ("seq", [("brk",)]), None),
                                                  ("if", ("bin", "comp.lt", V("i1"), I(3)), ("seq", [("cont",)]), None),
                                                  ("asg", "x1", ("bin", "add", V("x1"), I(10)))])),
                            ("arr", [V("x1"), V("i1")])]))
    return out


CORPUS = _alias_corpus() + _numeq_corpus() + _setexpr_corpus() + _emptyrep_corpus() + _loophead_corpus() + [  # hand-written trees for shapes the generator reaches rarely; each is one program
    ("seq", [("asg", "x1", ("i", 5)), ("aset", "x1", "k", ("i", 1)), ]),
    ("seq", [("i", 7), ("asg", "dc1", ("dict", [])), ("aset", "dc1", "k", ("i", 3))]),
    ("seq", [("asg", "ar1", ("arr", [("i", 1), ("i", 2)])), ("asg", "ar2", ("var", "ar1")), ("iset", ("var", "ar1"), ("i", 0), ("i", 9)), ("var", "ar2")]),
    ("seq", [("bin", "mul", ("bin", "nullCoalescing", ("n",), ("i", 3)), ("i", 4))]),
    ("seq", [("bin", "mul", ("i", 4), ("bin", "nullCoalescing", ("n",), ("i", 3)))]),
    ("seq", [("bin", "pow", ("neg", ("i", 2)), ("i", 2))]),
    ("seq", [("neg", ("bin", "pow", ("i", 2), ("i", 2)))]),
    ("seq", [("bin", "sub", ("i", 1), ("neg", ("i", 2)))]),
    ("seq", [("bin", "comp.lt", ("bin", "comp.lt", ("i", 1), ("i", 2)), ("i", 3))]),
    ("seq", [("tern", ("i", 0), ("i", 1), ("tern", ("i", 0), ("i", 2), ("i", 3)))]),
    ("seq", [("tern", ("tern", ("i", 1), ("i", 0), ("i", 1)), ("i", 2), ("i", 3))]),
    ("seq", [("or", ("i", 0), ("and", ("i", 2), ("i", 0)))]),
    ("seq", [("and", ("or", ("i", 0), ("i", 2)), ("i", 5))]),
    ("seq", [("or", ("or", ("i", 0), ("s", "")), ("arr", []))]),
    ("seq", [("asg", "x1", ("i", 0)), ("and", ("i", 0), ("asg", "x1", ("i", 5))), ("var", "x1")]),
    ("seq", [("asg", "x1", ("i", 0)), ("or", ("i", 1), ("asg", "x1", ("i", 5))), ("var", "x1")]),
    ("seq", [("asg", "x1", ("asg", "x2", ("i", 3))), ("bin", "add", ("var", "x1"), ("var", "x2"))]),
    ("seq", [("if", ("i", 1), ("seq", [("i", 2)]), None)]),
    ("seq", [("i", 9), ("if", ("i", 0), ("seq", [("i", 2)]), ("seq", []))]),
    ("seq", [("i", 9), ("while", ("i", 0), ("seq", []))]),
    ("seq", [("func", "fn1", ["pa1"], None, ("seq", [("if", ("var", "pa1"), ("seq", [("ret", ("i", 1))]), None), ("i", 2)])),
             ("bin", "add", ("call", ("var", "fn1"), [("i", 0)]), ("bin", "mul", ("call", ("var", "fn1"), [("i", 5)]), ("i", 10)))]),
    ("seq", [("func", "fn1", [], None, ("seq", [])), ("call", ("var", "fn1"), [])]),
    ("seq", [("func", "fn1", [], None, ("seq", [("ret", None)])), ("call", ("var", "fn1"), [])]),
    ("seq", [("asg", "x1", ("i", 1)), ("func", "fn1", [], None, ("seq", [("asg", "x1", ("i", 2)), ("var", "x1")])), ("call", ("var", "fn1"), []), ("var", "x1")]),
    ("seq", [("asg", "x1", ("i", 1)), ("func", "fn1", [], None, ("seq", [("var", "x1")])), ("func", "fn2", [], None, ("seq", [("asg", "x1", ("i", 7)), ("call", ("var", "fn1"), [])])),
             ("call", ("var", "fn2"), [])]),
    ("seq", [("asg", "x1", ("i", 2)), ("comp", "cv1", None, ("bin", "mul", ("var", "x1"), ("i", 10))), ("asg", "x1", ("i", 3)), ("var", "cv1")]),
    ("seq", [("comp", "cv1", None, ("asg", "x9", ("bin", "add", ("bin", "nullCoalescing", ("var", "x9"), ("i", 0)), ("i", 1)))), ("var", "cv1"), ("var", "cv1"), ("var", "cv1")]),
    ("seq", [("func", "fn1", ["pa1"], None, ("seq", [("if", ("bin", "comp.lt", ("var", "pa1"), ("i", 1)), ("seq", [("ret", ("i", 0))]), None),
                                                    ("bin", "add", ("var", "pa1"), ("call", ("var", "fn1"), [("bin", "sub", ("var", "pa1"), ("i", 1))]))])),
             ("call", ("var", "fn1"), [("i", 5)])]),
    ("seq", [("asg", "i1", ("i", 0)), ("asg", "x1", ("i", 0)),
             ("while", ("bin", "comp.lt", ("var", "i1"), ("i", 30)), ("seq", [("asg", "i1", ("bin", "add", ("var", "i1"), ("i", 1))),
                                                                              ("if", ("bin", "comp.eq", ("bin", "mod", ("var", "i1"), ("i", 2)), ("i", 0)), ("seq", [("cont",)]), None),
                                                                              ("asg", "x1", ("bin", "add", ("var", "x1"), ("var", "i1")))])), ("var", "x1")]),
    ("seq", [("asg", "i1", ("i", 0)), ("while", ("i", 1), ("seq", [("asg", "i1", ("bin", "add", ("var", "i1"), ("i", 1))),
                                                                    ("if", ("bin", "comp.gt", ("var", "i1"), ("i", 24)), ("seq", [("if", ("i", 1), ("seq", [("brk",)]), None)]), None)])), ("var", "i1")]),
    ("seq", [("tmpl", [("t", "a"), ("h", ("seq", [("if", ("i", 1), ("seq", [("i", 2)]), None)])), ("t", "b"), ("h", ("seq", [("i", 3)])), ("t", "c")])]),
    ("seq", [("tmpl", [("t", ""), ("h", ("seq", [("asg", "x1", ("i", 1)), ("asg", "x2", ("i", 2))])), ("h", ("tmpl", [("t", "<"), ("h", ("var", "x1")), ("t", ">")]))])]),
    ("seq", [("asg", "ar1", ("range", ("i", 1), ("i", 5))), ("sset", ("var", "ar1"), ("i", 1), ("i", 3), ("arr", [("i", 9)])), ("var", "ar1")]),
    ("seq", [("slc", ("range", ("i", 0), ("i", 9)), ("i", 2), None), ]),
    ("seq", [("arr", [("i", 1), ("i", 2), ("ternm", [(("i", 1), ("i", 5))])])]),
    ("seq", [("asg", "ar1", ("arr", [("i", 4)])), ("bin", "comp.eq", ("idx", ("var", "ar1"), ("i", 0)), ("i", 4))]),
    ("seq", [("asg", "ar1", ("arr", [("i", 4)])), ("if", ("bin", "comp.eq", ("idx", ("var", "ar1"), ("i", 0)), ("i", 4)), ("seq", [("asg", "x1", ("i", 1))]), None), ("var", "x1")]),
    ("seq", [("bin", "comp.ne", ("bin", "add", ("i", 1), ("i", 2)), ("i", 3))]),
    ("seq", [("bin", "mul", ("bin", "add", ("i", 1), ("i", 2)), ("i", 3)), ("bin", "comp.ne", ("bin", "add", ("i", 9), ("i", 0)), ("i", 3))]),
    ("seq", [("asg", "dc1", ("dict", [(("s", "k"), ("i", 1))])), ("bin", "comp.eq", ("var", "dc1"), ("dict", [(("s", "k"), ("i", 1)), (("s", "m"), ("i", 2))]))]),
    ("seq", [("asg", "dc1", ("dict", [(("s", "k"), ("i", 1))])), ("tmpl", [("h", ("var", "dc1"))]), ("bin", "comp.eq", ("var", "dc1"), ("dict", [(("s", "k"), ("i", 1)), (("s", "m"), ("i", 2))]))]),
    ("seq", [("i", 5), ("dict", [(("s", "a"), ("i", 1))])]),
    ("seq", [("asg", "ar1", ("arr", [])), ("asg", "ar2", ("arr", [])),
             ("call", ("attr", ("var", "ar1"), "push"), [("call", ("attr", ("call", ("attr", ("var", "ar2"), "push"), [("i", 5)]), "len"), [])]), ("arr", [("var", "ar1"), ("var", "ar2")])]),
    ("seq", [("asg", "ar1", ("arr", [("i", 1), ("i", 2), ("i", 3)])), ("asg", "ar2", ("arr", [("i", 7)])), ("asg", "mt1", ("attr", ("var", "ar1"), "len")), ("asg", "mt2", ("attr", ("var", "ar2"), "len")),
             ("bin", "add", ("bin", "mul", ("call", ("var", "mt1"), []), ("i", 10)), ("call", ("var", "mt2"), []))]),
]


FRAG_VARS = ["x1", "x2", "y9", "力量", "_v"]


def frag_stmts(r, depth=0):
    """1-3 statements: fragment expressions and (nested) if / if-else statements"""
    out = []
    for _ in range(r.randint(1, 3)):
        if depth < 3 and r.random() < 0.35:
            out.append(("if", frag_tree(r, 2), ("seq", frag_stmts(r, depth + 1)), ("seq", frag_stmts(r, depth + 1)) if r.random() < 0.6 else None))
        else:
            out.append(frag_tree(r, 2))
    return out


def frag_program(r):
    """a fragment expression, or a list of statements (expressions and conditionals)"""
    if r.random() < 0.4:
        return frag_tree(r)
    return ("seq", frag_stmts(r))


def frag_tree(r, d=0):
    """trees of the fragment of compile_correct: numbers, binary / unary operators, ternary, || and &&"""
    k = r.random()
    if d >= 4 or k < 0.22:
        j = r.random()
        if j < 0.7:
            return ("i", r.choice([0, 1, 2, 3, 7, 10, 100]))
        if j < 0.8:
            return ("f", r.choice([0.5, 1.5, 2.0, 10.25, 0.0]))
        if j < 0.93:
            return ("s", r.choice(["", "a", "ab", "力", "7", "x y"]))
        return ("n",)
    if k < 0.30:
        return ("var", r.choice(FRAG_VARS))
    if k < 0.36:
        return ("asg", r.choice(FRAG_VARS), frag_tree(r, d + 1))
    if k < 0.6:
        op = r.choice(["add", "sub", "mul", "div", "mod", "pow", "nullCoalescing", "comp.lt", "comp.le", "comp.eq", "comp.ne", "comp.ge", "comp.gt", "&", "|"])
        return ("bin", op, frag_tree(r, d + 1), frag_tree(r, d + 1))
    if k < 0.68:
        return ("neg", frag_tree(r, d + 1)) if r.random() < 0.75 else ("pos", frag_tree(r, d + 1))
    if k < 0.8:
        return ("tern", frag_tree(r, d + 1), frag_tree(r, d + 1), frag_tree(r, d + 1))
    if k < 0.9:
        return ("or", frag_tree(r, d + 1), frag_tree(r, d + 1))
    return ("and", frag_tree(r, d + 1), frag_tree(r, d + 1))


def main(tier):
    run = Run("C02", tier, module="DS.Props.C02", props_file="DS/Props/C02.lean",
              extra_files=["DS/Model/RefEval.lean", "DS/Model/VMRun.lean", "DS/Model/Ops.lean", "DS/Model/Frag.lean", "DS/Proofs/FragLemmas.lean", "DS/Proofs/FragCompile.lean", "DS/Proofs/FragStmts.lean", "DS/Proofs/FragIf.lean"])
    if run.prepare():
        run.proofs()
        r = run.rng
        cases = []  # (cfg, [trees])
        for t in CORPUS:
            cases.append(("-", [t], "corpus"))
        n = 4000 if tier == "thorough" else 900
        for _ in range(n):
            dice = r.random() < 0.25
            g = AstGen(r, dice=dice, ill=r.choice([0.0, 0.04, 0.12]))
            cfg = r.choice(["m", "M"]) if dice else r.choice(["-", "-", "z"])
            progs = [g.program() for _ in range(r.choice([1, 1, 2, 3]))]
            cases.append((cfg, progs, "generated"))
        go_lines, lean_lines, srcs = [], [], []
        for cfg, progs, kind in cases:
            pr = Printer(r, spacing=True, redundant=r.choice([0.0, 0.05, 0.2]))
            texts = [pr.raw(p) for p in progs]
            sx = Sexp()
            lean_lines.append(sx.line(cfg, progs))
            go_lines.append(f"runseq {cfg},L200000 {1:032x} " + " ".join(hx(t) for t in texts))
            srcs.append(texts)
        g_out = go_child(line_timeout=20).run(go_lines)
        m_out = lean_child().run(lean_lines)
        st = run.streams.setdefault("ref", {"cases": 0, "agree": 0})
        for (cfg, progs, kind), texts, go, le in zip(cases, srcs, g_out, m_out):
            st["cases"] += 1
            run.evaluations += 1
            run.count("ref.kind." + kind)
            if le.startswith("bad-") or "unsup" in le or "diverge" in le or "e28988" in le or "e28988" in go:
                run.count("ref.skipped-unspecified")
                continue
            gp = go.split(" | ")
            lp = le.split(" | ")
            rep = {"stream": "ref", "cfg": cfg, "sources": texts, "implementation": go[:600], "reference": le[:600]}
            if go.startswith("died") or len(gp) != len(lp):
                run.violation("ref:shape", rep)
                continue
            bad = None
            for i, (a, b) in enumerate(zip(gp[:-1], lp[:-1])):
                oa, ob = outcome(a), outcome(b)
                run.count("ref.outcome." + oa[0])
                if oa[0] != ob[0] or (oa[0] == "ok" and oa[1] != ob[1]):
                    bad = f"program {i + 1}: implementation {oa} reference {ob}"
                    if " r=" in a and not a.split(" r=")[1].startswith("-"):
                        bad += " (the parser did not consume the whole program: a precedence / grammar disagreement)"
                    break
                if oa[0] == "err" and oa[1] == ob[1]:
                    run.count("ref.same-error-text")
            if bad is None:
                va = norm(gp[-1].split(" cfg=")[0])
                vb = norm(lp[-1])
                if va != vb:
                    bad = "variables differ after the sequence"
            if bad:
                run.violation("definitional-semantics:" + bad.split(":")[0], dict(rep, disagreement=bad))
            else:
                st["agree"] += 1
                run.nontriv(("ref", tuple(texts), cfg))
        run.sample({"stream": "ref", "sources": srcs[len(CORPUS)], "reference_line": lean_lines[len(CORPUS)][:300]})
        # ---------- compile stream: the compiler of the theorem vs the real compiler, instruction by instruction
        trees = [frag_program(r) for _ in range(3000 if tier == "thorough" else 700)]
        texts, sx_lines = [], []
        for t in trees:
            pr = Printer(r, spacing=True, redundant=r.choice([0.0, 0.1, 0.3]))
            texts.append(pr.raw(t))
            sx_lines.append("fragc " + Sexp().e(t))
        gd = go_child().run([f"vmdump - {hx(t)}" for t in texts])
        md = lean_child().run(sx_lines)
        cs = run.streams.setdefault("compile", {"cases": 0, "agree": 0})
        for t, txt, a, b in zip(trees, texts, gd, md):
            cs["cases"] += 1
            run.evaluations += 1
            dump = a.split(" ", 1)[1] if " " in a else a
            dump = re.sub(r"mark\.detail=d\d+,\d+", "mark.detail=d_", dump)     # the extents are source positions (C08 / C14 check them)
            off = a.split(" ", 1)[0]
            if dump == b and off == str(len(txt.encode())):
                cs["agree"] += 1
                run.nontriv(("compile", txt))
            else:
                run.violation("correspondence:compile", {"stream": "compile", "source": txt, "implementation": a[:500], "model": b[:500]})
        if texts:
            run.sample({"stream": "compile", "source": texts[0], "code": md[0][:200]})
        # ---- the text of a float value (toStr, template holes, printing inside containers) is its shortest round-trip decimal in
        #      positional notation — for whole-valued floats beyond 2^53, negative zero and tiny fractions too.  Expected text: from the
        #      value's own bits (read from a separate run of the expression), by Python's shortest repr written out positionally
        import struct as _st
        from decimal import Decimal as _D

        def ftext(bits):
            f = _st.unpack(">d", _st.pack(">Q", bits))[0]
            if f != f:
                return "NaN"
            if f in (float("inf"), float("-inf")):
                return "+Inf" if f > 0 else "-Inf"
            t = format(_D(repr(f)), "f")
            if "." in t:
                t = t.rstrip("0").rstrip(".")
            return t
        fexprs = ["2.0**62", "2.0**64", "10.0**19", "2.0**53 + 1.0", "9007199254740993 * 1.0", "1.0 / 3", "0.1 + 0.2", "1.5", "3.0", "6.0 / 2", "0.0 * (0 - 1.0)",
                  "1.0 / 1000000", "123456789012345678 * 10.0", "0.000001 * 0.001", "2.0 ** 80", "(0 - 2.0) ** 63", "4611686018427387904 * 2.0", "1e0 + 1" if False else "7.25 * 4"]
        for _ in range(60 if tier == "thorough" else 25):
            a, b = r.choice((2.0, 3.0, 10.0, 1.5, 7.0, 0.5)), r.randint(1, 90)
            fexprs.append(r.choice((f"{a} ** {b}", f"{r.randint(1, 10**18)} * {r.choice((1.0, 2.0, 0.5, 10.0))}", f"{r.randint(1, 10**6)}.0 / {r.randint(1, 999)}",
                                    f"(0 - {a}) ** {b}", f"{r.randint(1, 10**15)}.{r.randint(0, 999)} * {r.choice((1.0, 1000.0, 1000000.0))}")))
        fl = []
        for e in fexprs:
            fl += [f"runseq -,L30000 {1:032x} {hx(e)}", f"runseq -,L30000 {1:032x} {hx('toStr(' + e + ')')}", f"runseq -,L30000 {1:032x} {hx('`<{' + e + '}>`')}",
                   f"runseq -,L30000 {1:032x} {hx('toStr([' + e + '])')}"]
        fo = run.go_only("float-text", fl, go_timeout=120)
        for i, e in enumerate(fexprs):
            v = re.match(r"ok f([0-9a-f]+) ", fo[4 * i][1])
            if not v:
                run.count("float-text.not-a-float")
                continue
            want = ftext(int(v.group(1), 16))
            got = [re.match(r"ok s([0-9a-f]*) ", fo[4 * i + j][1]) for j in (1, 2, 3)]
            texts3 = [unhx(g_.group(1)).decode("utf-8", "replace") if g_ else None for g_ in got]
            run.nontriv(("float-text", e))
            if texts3 != [want, "<" + want + ">", "[" + want + "]"]:
                run.violation("float-text:not-the-shortest-positional-decimal-of-the-value", {"expression": e, "value_bits": v.group(1), "expected_text": want,
                              "toStr / template hole / inside a list": texts3})
    return run.finish(
        trusted=["Lean 4.33 kernel", "axioms: propext, Classical.choice, Quot.sound", "Go harness + Lean driver + the Python printer (the statement of the grammar's precedence levels)",
                 "primitive operator tables / indexing / scopes are shared between the definitional semantics and the VM model (they are C01's and the vm stream's subject); "
                 "what the definitional semantics states independently is composition: evaluation order, control flow, calls, computed values, templates"],
        rule="hand-written corpus of precedence / short-circuit / aliasing / scoping / loop-exit shapes + type-directed random trees (expressions of every operator level, "
             "assignments of every form, if/else-if, while with break/continue in nested ifs, functions with early return, computed values, templates with statement "
             "holes, dice terms under min/max mode, 0-12% ill-typed operands), printed with random whitespace and redundant parentheses; sequences of 1-3 programs on one VM",
        assumptions=["floats whose shortest decimal form the model cannot print, and dict iteration order, are skipped and counted"])
