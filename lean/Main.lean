import DS.Driver.RollD
import DS.Driver.VMapD
import DS.Driver.ErrFmtD
import DS.Driver.StrLitD
import DS.Driver.JsonD
import DS.Driver.DetailD
import DS.Driver.VMD
import DS.Driver.RefD
import DS.Driver.PegD
open DS.Driver

def dispatch (line : String) : String :=
  let toks := tokens line
  match toks with
  | [] => ""
  | t :: _ =>
    if t ∈ ["rng", "roll", "common", "coc", "fate", "wod", "dc"] then rollLine toks
    else if t == "vmap" then vmapLine toks
    else if t == "errfmt" then errfmtLine toks
    else if t == "strscan" || t == "strescape" then strlitLine toks
    else if t == "jsondecm" || t == "jsonmapm" then jsonLine toks
    else if t == "detail" then detailLine toks
    else if t == "vmexec" || t == "skelexec" then vmLine toks
    else if t == "verify" then verifyLine toks
    else if t == "refeval" then refLine toks
    else if t == "fragc" then fragcLine toks
    else if t == "pegtrace" || t == "pegleaks" || t == "pegtracec" || t == "pegacts" then pegLine toks
    else if t == "matchrest" then matchRestLine toks
    else if t == "stlist" then stListLine toks
    else "bad-op"

partial def loop (hin : IO.FS.Stream) (hout : IO.FS.Stream) : IO Unit := do
  let line ← hin.getLine
  if line.isEmpty then return ()
  let l := line.trimRight
  if !l.isEmpty then
    hout.putStrLn (dispatch l)
  loop hin hout

def main : IO Unit := do
  let hin ← IO.getStdin
  let hout ← IO.getStdout
  loop hin hout
  hout.flush
