import DS.Driver.Common
import DS.Driver.ErrFmtD
import DS.Model.Detail
namespace DS.Driver
open DS.Detail

/-- span token: b,e,rethex,texthex,exprhex,taghex,textOnly(0/1),suffixhex -/
def parseSpan (t : String) : Option Span :=
  match t.splitOn "," with
  | [b, e, r, tx, ex, tg, to, sf] => do
    let b ← b.toNat?; let e ← e.toNat?
    let r ← bytesOf r; let tx ← bytesOf tx; let ex ← bytesOf ex; let tg ← DS.Hex.decode tg; let sf ← bytesOf sf
    pure { b := b, e := e, ret := r, text := tx, expr := ex, tag := tg, textOnly := to == "1", exprSuffix := sf }
  | _ => none

def detailLine (toks : List String) : String :=
  match toks with
  | "detail" :: src :: off :: ret :: spans =>
    match bytesOf src, off.toNat?, bytesOf ret, spans.mapM parseSpan with
    | some s, some o, some r, some sp =>
      match makeDetail s o sp r with
      | some out => "ok " ++ hexOf out
      | none => "panic"
    | _, _, _, _ => "bad-op"
  | _ => "bad-op"

end DS.Driver
