/-
  Cross-check of the skeleton (`Verify.sstep` / `kindOf`) against the model VM's `exec`: the VM loop is run with the
  skeleton state carried alongside, and after every dispatch
    (D1) if `exec` continues, the new frame must be one of the skeleton's successors (when the skeleton is not stuck);
    (D2) if `exec` panics at a structural site, the skeleton must be stuck.
  These two are exactly what transports "the skeleton never gets stuck" (the verifier's theorem) to "the VM never
  reaches a structural panic".  A mismatch is reported as the panic outcome `SKEL-MISMATCH …`.
-/
import DS.Model.VMRun
import DS.Model.Verify

namespace DS.VM
open DS.Verify

def structuralSite (s : String) : Bool :=
  s.startsWith "index out of range [-1]@" || s == "index out of range@jump" || s == "nil operand type assertion@jump" || s == "details"

def skOfFrame (f : Frame) (wod dc : Bool) : SK :=
  { pc := f.pc, top := f.top, blocks := f.blocks, fblocks := f.fblocks, dice := f.dice.length, det := f.details.length, wod := wod, dc := dc }

def skMatches (f : Frame) (s : SK) : Bool :=
  s.pc == f.pc && s.top == f.top && s.blocks == f.blocks && s.fblocks == f.fblocks && s.dice == f.dice.length && s.det == f.details.length

def evalLoopSk : Nat → G → Frame → Bool → Bool → G × Res SubOut
  | 0, g, _, _, _ => (g, .diverge)
  | fuel+1, g, f, wod, dc =>
    if f.pc ≥ f.code.size then
      (g, .ok { top := if f.top == 0 then none else some (f.stack[f.top - 1]!), spans := solvedSpans g f })
    else
      let g := addOps g f.ctx 1
      if overLimit g (getOps g f.ctx) then (g, .err "允许算力上限")
      else if f.top == stackSize then (g, .err "执行栈到达溢出线")
      else
        let ins := f.code[f.pc]!
        let k := kindOf ins
        let sk := skOfFrame f wod dc
        let sub : SubRun := fun g' fr =>
          match evalLoopSk fuel g' fr false false with
          | (g2, .panic s) => (g2, .panic ("sub:" ++ s))
          | r => r
        match exec sub g f ins with
        | .next g' f' =>
          (match sstep f.code.size k sk with
           | some succs =>
             (match succs.find? (skMatches f') with
              | some s' => evalLoopSk fuel g' f' s'.wod s'.dc
              | none => (g', .panic s!"SKEL-MISMATCH D1 pc={f.pc} top={f.top}->{f'.top} pc'={f'.pc} blocks={f'.blocks.length} fblocks={f'.fblocks.length} dice={f'.dice.length} det={f'.details.length}"))
           | none =>
             -- the skeleton is stricter than the VM only on: jumps (a forward jump past the end just ends the run; an
             -- untaken conditional jump never reads its operand), uninitialised pool-dice state (zero values → checked error),
             -- and push.def_expr when the text carries an advantage mark
             evalLoopSk fuel g' f' wod dc)
        | .done g' f' =>
          (g', .ok { top := if f'.top == 0 then none else some (f'.stack[f'.top - 1]!), spans := solvedSpans g' f' })
        | .stop g' _ r =>
          (match r with
           | .panic s =>
             if structuralSite s && (sstep f.code.size k sk).isSome then (g', .panic s!"SKEL-MISMATCH D2 pc={f.pc} site={s}")
             else (g', r.cast)
           | _ => (g', r.cast))

end DS.VM
