/-
  Sequential model of valuemap.go (a copy of sync.Map plus Length/Clear).
  The state is keyed by key, not by entry pointer: along a sequential history an entry object is
  reachable through one key only, so `ent : key → Option slot` is a faithful view
  (the `vmap` stream compares exactly this view — read/dirty membership, entry state, amended, misses).
-/
namespace DS.VMap

/-- what the atomic pointer `entry.p` holds -/
inductive Slot (α : Type) where
  | nil                -- deleted, still in dirty (or dirty = nil)
  | expunged           -- deleted and absent from dirty
  | val (v : α)
  deriving Repr, DecidableEq

structure St (α : Type) where
  ent : String → Option (Slot α)   -- the entry object reachable for a key, if any
  inRead : String → Bool           -- key ∈ read.m
  inDirty : String → Bool          -- key ∈ dirty (all false when dirty = nil)
  dirtyNil : Bool
  amended : Bool
  misses : Nat
  dom : List String                -- keys with an entry (bookkeeping for len/range), duplicate-free

def init {α} : St α :=
  { ent := fun _ => none, inRead := fun _ => false, inDirty := fun _ => false,
    dirtyNil := true, amended := false, misses := 0, dom := [] }

variable {α : Type}

def lenRead (s : St α) : Nat := (s.dom.filter s.inRead).length
def lenDirty (s : St α) : Nat := (s.dom.filter s.inDirty).length

def upd {β} (f : String → β) (k : String) (b : β) : String → β := fun x => if x = k then b else f x

/-- `e.load()` -/
def slotLoad : Option (Slot α) → Option α
  | some (.val v) => some v
  | _ => none

/-- promotion of dirty to read (missLocked's tail and Range's fast-forward) -/
def promote (s : St α) : St α :=
  { ent := fun k => if s.inDirty k then s.ent k else none
    inRead := s.inDirty
    inDirty := fun _ => false
    dirtyNil := true
    amended := false
    misses := 0
    dom := s.dom.filter s.inDirty }

def missLocked (s : St α) : St α :=
  let s1 := { s with misses := s.misses + 1 }
  if s1.misses < lenDirty s1 then s1 else promote s1

/-- `dirtyLocked`: allocate dirty from read, expunging deleted entries -/
def dirtyLocked (s : St α) : St α :=
  if !s.dirtyNil then s else
  { s with
    ent := fun k => if s.inRead k then (match s.ent k with
                                        | some .nil => some .expunged
                                        | e => e) else s.ent k
    inDirty := fun k => s.inRead k && (match s.ent k with
                                       | some .nil => false
                                       | some .expunged => false
                                       | some (.val _) => true
                                       | none => false)
    dirtyNil := false }

def addDom (dom : List String) (k : String) : List String := if k ∈ dom then dom else dom ++ [k]

/-- the "new key" tail shared by Store and LoadOrStore -/
def insertNew (s : St α) (k : String) (v : α) : St α :=
  let s1 := if !s.amended then { dirtyLocked s with amended := true } else s
  { s1 with ent := upd s1.ent k (some (.val v)), inDirty := upd s1.inDirty k true, dom := addDom s1.dom k }

def isExpunged : Option (Slot α) → Bool
  | some .expunged => true
  | _ => false

def load (s : St α) (k : String) : Option α × St α :=
  if s.inRead k then (slotLoad (s.ent k), s)
  else if s.amended then
    let r := if s.inDirty k then slotLoad (s.ent k) else none
    (r, missLocked s)
  else (none, s)

def store (s : St α) (k : String) (v : α) : St α :=
  if s.inRead k && !isExpunged (s.ent k) then
    { s with ent := upd s.ent k (some (.val v)) }        -- tryStore fast path
  else if s.inRead k then                                 -- expunged: unexpunge, put back into dirty
    { s with ent := upd s.ent k (some (.val v)), inDirty := upd s.inDirty k true }
  else if s.inDirty k then
    { s with ent := upd s.ent k (some (.val v)) }
  else insertNew s k v

/-- returns (actual, loaded) -/
def loadOrStore (s : St α) (k : String) (v : α) : (α × Bool) × St α :=
  if s.inRead k then
    match s.ent k with
    | some (.val x) => ((x, true), s)
    | some .expunged =>
      ((v, false), { s with ent := upd s.ent k (some (.val v)), inDirty := upd s.inDirty k true })
    | _ => ((v, false), { s with ent := upd s.ent k (some (.val v)) })
  else if s.inDirty k then
    match s.ent k with
    | some (.val x) => ((x, true), missLocked s)
    | _ => ((v, false), missLocked { s with ent := upd s.ent k (some (.val v)) })
  else ((v, false), insertNew s k v)

/-- returns (value, loaded) -/
def loadAndDelete (s : St α) (k : String) : Option α × St α :=
  if s.inRead k then
    match s.ent k with
    | some (.val x) => (some x, { s with ent := upd s.ent k (some .nil) })
    | _ => (none, s)
  else if s.amended then
    let r := if s.inDirty k then slotLoad (s.ent k) else none
    let s1 := { s with ent := upd s.ent k none, inDirty := upd s.inDirty k false,
                       dom := s.dom.filter (· ≠ k) }
    (r, missLocked s1)
  else (none, s)

def clear (s : St α) : St α :=
  if lenRead s == 0 && !s.amended then s
  else { ent := fun _ => none, inRead := fun _ => false, inDirty := fun _ => false,
         dirtyNil := false, amended := false, misses := 0, dom := [] }

/-- Range: promotes when amended, then visits the live pairs of read (in `dom` order here; Go's order
    is map order, so the streams compare sorted) -/
def range (s : St α) : List (String × α) × St α :=
  let s1 := if s.amended then promote s else s
  ((s1.dom.filter s1.inRead).filterMap (fun k => (slotLoad (s1.ent k)).map (fun v => (k, v))), s1)

def isLive (s : St α) (k : String) : Bool := (slotLoad (s.ent k)).isSome

/-- `Length()` — number of live entries of the map it measures (dirty when amended, else read) -/
def length (s : St α) : Nat :=
  if s.amended then ((s.dom.filter s.inDirty).filter (isLive s)).length
  else ((s.dom.filter s.inRead).filter (isLive s)).length

/-- the pre-fix `Length()`: `len(dirty)` / `len(read.m)` including tombstones (kept for the witness) -/
def lengthOld (s : St α) : Nat := if s.amended then lenDirty s else lenRead s

/-! abstract specification: an ordinary string-keyed map -/
def abs (s : St α) : String → Option α := fun k => slotLoad (s.ent k)

inductive Op (α : Type) where
  | load (k : String)
  | store (k : String) (v : α)
  | loadOrStore (k : String) (v : α)
  | loadAndDelete (k : String)
  | delete (k : String)
  | clear
  | range
  | length
  deriving Repr

inductive Ret (α : Type) where
  | unit
  | val (v : Option α)                 -- Load / LoadAndDelete: value, ok
  | los (v : α) (loaded : Bool)        -- LoadOrStore
  | pairs (l : List (String × α))      -- Range
  | len (n : Nat)
  deriving Repr, DecidableEq

def step (s : St α) : Op α → Ret α × St α
  | .load k => let (r, s') := load s k; (.val r, s')
  | .store k v => (.unit, store s k v)
  | .loadOrStore k v => let ((a, l), s') := loadOrStore s k v; (.los a l, s')
  | .loadAndDelete k => let (r, s') := loadAndDelete s k; (.val r, s')
  | .delete k => (.unit, (loadAndDelete s k).2)
  | .clear => (.unit, clear s)
  | .range => let (l, s') := range s; (.pairs l, s')
  | .length => (.len (length s), s)

end DS.VMap
