/-
  C10 — deserialising untrusted JSON never yields a booby-trapped value.  Property theorems only.
  In the model a decoded value cannot contain a nil pointer or a TypeId whose payload has another dynamic
  type (the type `V` has no such inhabitants; the json stream ties that to the real decoder, whose
  canonical rendering prints NIL / N? / i? for them).  What remains to prove is that the payloads are
  within the ranges the operations assume.
-/
import DS.Proofs.JsonLemmas

namespace DS.Props.C10
open DS.Json DS.Proofs.JsonL

mutual
  /-- well-typed: integers fit int64, native functions have an implementation, recursively -/
  def WT : V → Bool
    | .int i => decide (minInt64 ≤ i ∧ i ≤ maxInt64)
    | .arr l => WTList l
    | .dict kv => WTEntries kv
    | .computed _ (some m) => WTEntries m
    | .nativeFn n => builtinNames.contains n
    | _ => true
  def WTList : List V → Bool
    | [] => true
    | v :: r => WT v && WTList r
  def WTEntries : List (String × V) → Bool
    | [] => true
    | (_, v) :: r => WT v && WTEntries r
end

theorem asInt_range (o : Option J) (i : Int) (h : asInt o = .ok i) : minInt64 ≤ i ∧ i ≤ maxInt64 := by
  unfold asInt at h
  split at h
  · cases h; decide
  · cases h; decide
  · split at h
    · cases h; assumption
    · cases h
  · cases h

/-- the four decoders, one level of fuel at a time -/
theorem decode_welltyped_aux : ∀ (fuel : Nat),
    (∀ j v, decode fuel j = .ok v → WT v = true) ∧
    (∀ l vs, decodeList fuel l = .ok vs → WTList vs = true) ∧
    (∀ j m, decodeMap fuel j = .ok m → WTEntries m = true) ∧
    (∀ kv m, decodeEntries fuel kv = .ok m → WTEntries m = true) := by
  intro fuel
  induction fuel with
  | zero =>
    have h0 : ∀ j, decode 0 j = .error () := by intro j; cases j <;> simp [decode]
    have hd : ∀ j v, decode 0 j = .ok v → WT v = true := by
      intro j v h; rw [h0] at h; cases h
    have hl : ∀ l vs, decodeList 0 l = .ok vs → WTList vs = true := by
      intro l
      induction l with
      | nil => intro vs h; rw [decodeList] at h; cases h; rfl
      | cons j rest _ =>
        intro vs h
        unfold decodeList at h
        split at h
        · cases h
        · rw [h0] at h; cases h
    have he : ∀ kv m, decodeEntries 0 kv = .ok m → WTEntries m = true := by
      intro kv
      induction kv with
      | nil => intro m h; rw [decodeEntries] at h; cases h; rfl
      | cons p rest _ =>
        intro m h
        obtain ⟨k, j⟩ := p
        unfold decodeEntries at h
        split at h
        · cases h
        · rw [h0] at h; cases h
    refine ⟨hd, hl, ?_, he⟩
    intro j m h
    cases j with
    | null => simp [decodeMap] at h; subst h; rfl
    | obj kv => simp only [decodeMap] at h; exact he kv m h
    | bool b => simp [decodeMap] at h
    | num n => simp [decodeMap] at h
    | str s => simp [decodeMap] at h
    | arr l => simp [decodeMap] at h
  | succ fuel ih =>
    obtain ⟨ihd, ihl, ihm, ihe⟩ := ih
    -- decode at fuel+1 uses the list/map decoders at `fuel`
    have hd : ∀ j v, decode (fuel + 1) j = .ok v → WT v = true := by
      intro j v h
      cases j with
      | null => simp [decode] at h; subst h; decide
      | bool b => simp [decode] at h
      | num n => simp [decode] at h
      | str s => simp [decode] at h
      | arr l => simp [decode] at h
      | obj kv =>
        simp only [decode] at h
        split at h
        · cases h
        · rename_i t _
          unfold decodeByTag at h
          split at h
          · split at h
            · rename_i i hi; cases h; simp [WT, asInt_range _ _ hi]
            · cases h
          · split at h
            · split at h
              · cases h; rfl
              · cases h
            · split at h
              · split at h
                · cases h; rfl
                · cases h
              · split at h
                · cases h; rfl
                · split at h
                  · -- computed
                    unfold decComputed at h
                    split at h
                    · cases h
                    · split at h
                      · cases h
                      · split at h
                        · cases h; rfl
                        · split at h
                          · cases h
                          · rename_i m hm; cases h; simp [WT, ihm _ _ hm]
                  · split at h
                    · -- array
                      unfold decArray at h
                      split at h
                      · cases h
                      · split at h
                        · cases h; rfl
                        · cases h; rfl
                        · split at h
                          · cases h
                          · rename_i vs hvs; cases h; simp [WT, ihl _ _ hvs]
                        · cases h
                    · split at h
                      · -- dict
                        unfold decDict at h
                        split at h
                        · cases h
                        · split at h
                          · cases h; rfl
                          · split at h
                            · cases h
                            · rename_i m hm; cases h; simp [WT, ihm _ _ hm]
                      · split at h
                        · -- func
                          unfold decFunc at h
                          split at h
                          · cases h
                          · split at h
                            · cases h; rfl
                            · cases h
                        · split at h
                          · -- native fn
                            unfold decNativeFn at h
                            split at h
                            · cases h
                            · split at h
                              · cases h
                              · split at h
                                · rename_i hn; cases h; simpa [WT] using hn
                                · cases h
                          · split at h
                            · unfold decNativeObj at h
                              split at h
                              · cases h
                              · split at h
                                · cases h
                                · cases h; rfl
                            · cases h; rfl
    have hl : ∀ l vs, decodeList (fuel + 1) l = .ok vs → WTList vs = true := by
      intro l
      induction l with
      | nil => intro vs h; rw [decodeList] at h; cases h; rfl
      | cons j rest ihr =>
        intro vs h
        unfold decodeList at h
        split at h
        · cases h
        · split at h
          · rename_i v r hv hr
            cases h
            simp [WTList, hd _ _ hv, ihr _ hr]
          · cases h
    have he : ∀ kv m, decodeEntries (fuel + 1) kv = .ok m → WTEntries m = true := by
      intro kv
      induction kv with
      | nil => intro m h; rw [decodeEntries] at h; cases h; rfl
      | cons p rest ihr =>
        intro m h
        obtain ⟨k, j⟩ := p
        unfold decodeEntries at h
        split at h
        · cases h
        · split at h
          · rename_i v r hv hr
            cases h
            simp [WTEntries, hd _ _ hv, ihr _ hr]
          · cases h
    refine ⟨hd, hl, ?_, he⟩
    intro j m h
    cases j with
    | null => simp [decodeMap] at h; subst h; rfl
    | obj kv => simp only [decodeMap] at h; exact he kv m h
    | bool b => simp [decodeMap] at h
    | num n => simp [decodeMap] at h
    | str s => simp [decodeMap] at h
    | arr l => simp [decodeMap] at h

/-- C10: for EVERY JSON document (tree) and every nesting depth, decoding either fails or yields a well-typed
    value — integers within int64, every native function bound to an existing implementation, no nil
    anywhere — all the way down through arrays, dicts and computed-value attributes -/
theorem decode_welltyped (fuel : Nat) (j : J) (v : V) (h : decode fuel j = .ok v) : WT v = true :=
  (decode_welltyped_aux fuel).1 j v h

/-- the same for a whole variable map (ValueMap.UnmarshalJSON) -/
theorem decodeMap_welltyped (fuel : Nat) (j : J) (m : List (String × V)) (h : decodeMap fuel j = .ok m) :
    WTEntries m = true :=
  (decode_welltyped_aux fuel).2.2.1 j m h

/-- an unknown native function name is a decode error (the repaired defect, see known_findings.json) -/
theorem unknown_native_rejected (fuel : Nat) :
    decode (fuel + 1) (tagObj 9 (some (.obj [(fkey .name "name", .str "nosuch")]))) = .error () := by
  simp only [decode, tagObj, lookup_t, lookup_v]
  rw [asInt_ok 9 (by decide)]
  simp [decodeByTag, decNativeFn, asObj, lookup, fkey, asString, builtinNames]

/-- a null element is a decode error (the repaired defect) -/
theorem null_element_rejected (fuel : Nat) :
    decode (fuel + 1) (tagObj 6 (some (.obj [(fkey .list "list", .arr [.null])]))) = .error () := by
  simp only [decode, tagObj, lookup_t, lookup_v]
  rw [asInt_ok 6 (by decide)]
  simp [decodeByTag, decArray, asObj, lookup, fkey, decodeList]

end DS.Props.C10
