package main

import (
	"encoding/json"
	"fmt"
	"regexp"
	"strconv"
	"strings"

	ds "github.com/sealdice/dicescript"
)

// custom <cfg> <seed> <ext-spec> <hexsrc>
// ext-spec = comma separated:
//   -            nothing registered
//   re:<hexpat>  RegCustomDice(pattern) with a handler returning 1000 + len(groups[0]) and logging its arguments
//   spnever:<k>  RegCustomDiceParser that reads k runes ahead (then Unreads half of them) and reports no match
//   sphash       RegCustomDiceParser matching '#' digits+ (groups: whole, digits; payload = digits), reading one rune beyond and unreading it
//   spzero       RegCustomDiceParser that reports Matched without consuming anything
//   hooks        identity HookValueLoadPre / HookValueLoadPost / HookValueStore
//   hooks2       identity HookValueLoadPre / HookValueLoadPost that calls doCompute only for computed values
//   hookren      HookValueLoadPre that strips the prefix 困难 from every name it is asked for
//   spnil:<k>    stream parser that reads k runes and declines with a nil result (no rewind of its own)
//   spgroups     stream parser C<d>T<d> refilling one shared groups buffer; the handler adds the two numbers
//   gnil         empty global table (GlobalValueLoadFunc -> nil) + identity GlobalValueLoadOverwriteFunc
//   spexpr       stream parser: 'R' then an operand read with the stream's own ReadExpr; the handler evaluates the operand
//   hookow:<hex> names served through the overwrite result of HookValueLoadPre, from a JSON variable map decoded per load
//   gjson:<hex>  global variables served from a JSON variable map that is decoded afresh on every load
//   rewr         identity CustomDetailRewriteFunc / CustomDetailSpanRewriteFunc
// Output: "<ok VALUE d=DETAIL m=MATCHED r=REST seed=SEED|err MSG> vars=… calls=<hex log of handler calls>"
func customLine(t []string) string {
	if len(t) != 5 {
		return "bad-op"
	}
	cfg, ok := parseCfg(t[1])
	src, ok2 := unhx(t[4])
	if !ok || !ok2 {
		return "bad-op"
	}
	vm, ok := newVM(cfg, t[2])
	if !ok {
		return "bad-op"
	}
	var log []string
	handler := func(tag string) ds.CustomDiceHandler {
		return func(ctx *ds.Context, groups []string, payload any) (*ds.VMValue, string, error) {
			log = append(log, fmt.Sprintf("%s|%s|%v", tag, strings.Join(groups, "\x1f"), payload))
			// mutate the groups we were given: the VM must have handed us a copy
			for i := range groups {
				groups[i] = "MUTATED"
			}
			return ds.NewIntVal(ds.IntType(1000 + len(tag))), "", nil
		}
	}
	if t[3] != "-" {
		for _, sp := range strings.Split(t[3], ",") {
			switch {
			case sp == "hooks":
				vm.Config.HookValueLoadPre = func(ctx *ds.Context, name string) (string, *ds.VMValue) { return name, nil }
				vm.Config.HookValueLoadPost = func(ctx *ds.Context, name string, cur *ds.VMValue, doCompute func(*ds.VMValue) *ds.VMValue, detail *ds.BufferSpan) *ds.VMValue {
					return doCompute(cur)
				}
				vm.Config.HookValueStore = func(ctx *ds.Context, name string, v *ds.VMValue) (*ds.VMValue, bool) { return nil, false }
			case sp == "hooks2":
				// another pass-through: plain values are handed back as they are, only computed values go through doCompute
				vm.Config.HookValueLoadPre = func(ctx *ds.Context, name string) (string, *ds.VMValue) { return name, nil }
				vm.Config.HookValueLoadPost = func(ctx *ds.Context, name string, cur *ds.VMValue, doCompute func(*ds.VMValue) *ds.VMValue, detail *ds.BufferSpan) *ds.VMValue {
					if cur != nil && cur.TypeId == ds.VMTypeComputedValue {
						return doCompute(cur)
					}
					return cur
				}
			case sp == "hookren":
				// a host that renames on load (the way sealdice strips a difficulty prefix): "困难X" is looked up as "X" — in the local
				// scope chain AND at the global stage (global table, builtins)
				vm.Config.HookValueLoadPre = func(ctx *ds.Context, name string) (string, *ds.VMValue) {
					return strings.TrimPrefix(name, "困难"), nil
				}
			case sp == "spgroups":
				// stream parser "C<digits>T<digits>" that refills ONE groups buffer on every match (the compiled operand must own a copy)
				buf := make([]string, 3)
				_ = vm.RegCustomDiceParser(func(ctx *ds.Context, s *ds.CustomDiceStream) (*ds.CustomDiceParseResult, error) {
					r, ok := s.Read()
					if !ok || r != 'C' {
						return nil, nil
					}
					a, ok := s.ReadDigits()
					if !ok {
						return &ds.CustomDiceParseResult{Matched: false}, nil
					}
					if r, ok := s.Read(); !ok || r != 'T' {
						return &ds.CustomDiceParseResult{Matched: false}, nil
					}
					b, ok := s.ReadDigits()
					if !ok {
						return &ds.CustomDiceParseResult{Matched: false}, nil
					}
					buf[0], buf[1], buf[2] = "C"+a+"T"+b, a, b
					return &ds.CustomDiceParseResult{Matched: true, Groups: buf}, nil
				}, func(ctx *ds.Context, groups []string, payload any) (*ds.VMValue, string, error) {
					log = append(log, "spgroups|"+strings.Join(groups, "\x1f"))
					x, _ := strconv.Atoi(groups[1])
					y, _ := strconv.Atoi(groups[2])
					return ds.NewIntVal(ds.IntType(x + y)), "", nil
				})
			case sp == "gnil":
				// a host with a global variable table that holds nothing, and an overwrite function that hands values back
				vm.GlobalValueLoadFunc = func(name string) *ds.VMValue { return nil }
				vm.GlobalValueStoreFunc = func(name string, v *ds.VMValue) {}
				vm.GlobalValueLoadOverwriteFunc = func(name string, cur *ds.VMValue) *ds.VMValue { return cur }
			case sp == "rewr":
				vm.Config.CustomDetailRewriteFunc = func(ctx *ds.Context, cur string, span ds.BufferSpan, data []byte, off int) string { return cur }
				vm.Config.CustomDetailSpanRewriteFunc = func(ctx *ds.Context, def string, span ds.BufferSpan, isRoot bool, data []byte, off int) string { return def }
			case strings.HasPrefix(sp, "re:"):
				pat, ok := unhx(sp[3:])
				if !ok {
					return "bad-op"
				}
				if _, err := regexp.Compile(pat); err != nil {
					return "bad-op"
				}
				if err := vm.RegCustomDice(pat, handler("re:"+pat)); err != nil {
					return "reg-err " + hx(err.Error())
				}
			case strings.HasPrefix(sp, "reshared:"):
				// the handler reuses ONE result object and mutates it on every call: the VM must take a copy
				pat, ok := unhx(sp[9:])
				if !ok {
					return "bad-op"
				}
				shared := ds.NewIntVal(0)
				cnt := 0
				if err := vm.RegCustomDice(pat, func(ctx *ds.Context, groups []string, payload any) (*ds.VMValue, string, error) {
					cnt++
					log = append(log, fmt.Sprintf("shared|%s|%d", strings.Join(groups, "\x1f"), cnt))
					shared.Value = ds.IntType(cnt)
					return shared, "", nil
				}); err != nil {
					return "reg-err " + hx(err.Error())
				}
			case strings.HasPrefix(sp, "reerr:") || strings.HasPrefix(sp, "renil:"):
				// handlers that fail: an error / no value at all — the evaluation must end in an error, never in a crash or a value
				pat, ok := unhx(sp[6:])
				if !ok {
					return "bad-op"
				}
				isErr := strings.HasPrefix(sp, "reerr:")
				if err := vm.RegCustomDice(pat, func(ctx *ds.Context, groups []string, payload any) (*ds.VMValue, string, error) {
					log = append(log, "failing|"+strings.Join(groups, "\x1f"))
					if isErr {
						return nil, "", fmt.Errorf("handler says no")
					}
					return nil, "", nil
				}); err != nil {
					return "reg-err " + hx(err.Error())
				}
			case strings.HasPrefix(sp, "spnever:"):
				k, _ := strconv.Atoi(sp[8:])
				_ = vm.RegCustomDiceParser(func(ctx *ds.Context, s *ds.CustomDiceStream) (*ds.CustomDiceParseResult, error) {
					n := 0
					for i := 0; i < k; i++ {
						if _, ok := s.Read(); !ok {
							break
						}
						n++
					}
					for i := 0; i < n/2; i++ {
						s.Unread()
					}
					return &ds.CustomDiceParseResult{Matched: false}, nil
				}, handler("spnever"))
			case strings.HasPrefix(sp, "spnil:"):
				// a stream parser that reads k runes ahead and then declines with a nil result, without rewinding anything itself
				k, _ := strconv.Atoi(sp[6:])
				_ = vm.RegCustomDiceParser(func(ctx *ds.Context, s *ds.CustomDiceStream) (*ds.CustomDiceParseResult, error) {
					for i := 0; i < k; i++ {
						if _, ok := s.Read(); !ok {
							break
						}
					}
					return nil, nil
				}, handler("spnil"))
			case sp == "sphash":
				_ = vm.RegCustomDiceParser(func(ctx *ds.Context, s *ds.CustomDiceStream) (*ds.CustomDiceParseResult, error) {
					r, ok := s.Read()
					if !ok || r != '#' {
						return nil, nil
					}
					digits, ok := s.ReadDigits()
					if !ok {
						return &ds.CustomDiceParseResult{Matched: false}, nil
					}
					// look one rune beyond and give it back
					if _, ok := s.Read(); ok {
						s.Unread()
					}
					return &ds.CustomDiceParseResult{Matched: true, Groups: []string{"", digits}, Payload: digits}, nil
				}, handler("sphash"))
			case sp == "spexpr":
				// 'R' followed by an operand read with the stream's own ReadExpr; the handler evaluates that operand
				_ = vm.RegCustomDiceParser(func(ctx *ds.Context, s *ds.CustomDiceStream) (*ds.CustomDiceParseResult, error) {
					r, ok := s.Read()
					if !ok || r != 'R' {
						return nil, nil
					}
					v, ok, err := s.ReadExpr("")
					if err != nil {
						return nil, err // the operand's own syntax error is the term's error
					}
					if !ok || v == nil {
						return &ds.CustomDiceParseResult{Matched: false}, nil
					}
					return &ds.CustomDiceParseResult{Matched: true, Payload: v}, nil
				}, func(ctx *ds.Context, groups []string, payload any) (*ds.VMValue, string, error) {
					log = append(log, "spexpr|"+strings.Join(groups, "\x1f"))
					cv, _ := payload.(*ds.VMValue)
					if cv == nil {
						return nil, "", fmt.Errorf("no operand")
					}
					res := cv.ComputedExecute(ctx, nil)
					if ctx.Error != nil {
						return nil, "", ctx.Error
					}
					return res, "", nil
				})
			case strings.HasPrefix(sp, "gjson:"):
				// a host whose global variables live in a JSON document and are DECODED ON EVERY LOAD (each load hands out a fresh object)
				doc, ok := unhx(sp[6:])
				if !ok {
					return "bad-op"
				}
				vm.GlobalValueLoadFunc = func(name string) *ds.VMValue {
					m := &ds.ValueMap{}
					if err := json.Unmarshal([]byte(doc), m); err != nil {
						return nil
					}
					v, _ := m.Load(name)
					return v
				}
				vm.GlobalValueStoreFunc = func(name string, v *ds.VMValue) {}
			case strings.HasPrefix(sp, "hookow:"):
				// a host that serves some names itself, through the overwrite result of HookValueLoadPre (decoded per load)
				doc, ok := unhx(sp[7:])
				if !ok {
					return "bad-op"
				}
				vm.Config.HookValueLoadPre = func(ctx *ds.Context, name string) (string, *ds.VMValue) {
					m := &ds.ValueMap{}
					if err := json.Unmarshal([]byte(doc), m); err != nil {
						return name, nil
					}
					v, _ := m.Load(name)
					return name, v
				}
			case sp == "spzero":
				_ = vm.RegCustomDiceParser(func(ctx *ds.Context, s *ds.CustomDiceStream) (*ds.CustomDiceParseResult, error) {
					return &ds.CustomDiceParseResult{Matched: true}, nil
				}, handler("spzero"))
			default:
				return "bad-op"
			}
		}
	}
	out := runOne(vm, src)
	out2 := ""
	if strings.HasPrefix(out, "ok ") {
		// a second evaluation of the same compiled program: the handler must run once per evaluation
		n1 := len(log)
		if err := vm.RunAfterParsed(); err == nil {
			out2 = fmt.Sprintf(" rerun=%d", len(log)-n1)
		} else {
			out2 = " rerun=err"
		}
		log = log[:n1]
	}
	return out + " | vars=" + canonAttrs(vm.Attrs) + " calls=" + hx(strings.Join(log, "\x1e")) + out2
}

func init() {
	handlers["custom"] = customLine
}

// customlazy <seed> <hexbody> : a context with the custom term E<n> (value 2n) evaluates the same text four ways — directly; through RunExpr;
// as a computed value restored from JSON; as the body of a function restored from JSON — every way compiles the text with the syntaxes the
// context has registered.  Prints the four outcomes and how often the handler ran.
func customLazyLine(t []string) string {
	if len(t) != 3 {
		return "bad-op"
	}
	body, ok := unhx(t[2])
	if !ok {
		return "bad-op"
	}
	calls := 0
	mk := func() *ds.Context {
		vm, _ := newVM(ds.RollConfig{OpCountLimit: 30000}, t[1])
		_ = vm.RegCustomDice(`E(\d+)`, func(ctx *ds.Context, groups []string, payload any) (*ds.VMValue, string, error) {
			calls++
			n, _ := strconv.Atoi(groups[1])
			return ds.NewIntVal(ds.IntType(2 * n)), "", nil
		})
		return vm
	}
	show := func(v *ds.VMValue, err error) string {
		if err != nil {
			return "err:" + hx(err.Error())
		}
		return canon(v)
	}
	return safely(func() string {
		var outs []string
		a := mk()
		err := a.Run(body)
		outs = append(outs, show(a.Ret, err))
		b := mk()
		v, err := b.RunExpr(body, false)
		outs = append(outs, show(v, err))
		for _, doc := range []string{`{"t":5,"v":{"expr":%s}}`, `{"t":8,"v":{"expr":%s,"name":"x","params":[]}}`} {
			c := mk()
			q, _ := json.Marshal(body)
			val, e := ds.VMValueFromJSON([]byte(fmt.Sprintf(doc, q)))
			if e != nil {
				outs = append(outs, "decode-err")
				continue
			}
			c.Attrs.Store("x", val)
			prog := "x"
			if strings.Contains(doc, `"t":8`) {
				prog = "x()"
			}
			err := c.Run(prog)
			outs = append(outs, show(c.Ret, err))
		}
		return strings.Join(outs, " | ") + fmt.Sprintf(" calls=%d", calls)
	})
}

func init() { handlers["customlazy"] = customLazyLine }
