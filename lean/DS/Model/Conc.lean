/-
  A step-level model of several VMs sharing package-level state.  Each VM has a local state `L`; the
  package-level state is `G`.  One atomic step of a VM reads `G` and its own local state and may write both.
  A schedule is a list of VM ids: any interleaving of the VMs' steps.
-/
namespace DS.Conc

variable {G L : Type}

/-- one atomic step of VM `i` -/
abbrev Step (G L : Type) := G → L → G × L

/-- run a schedule: VM `i` takes a step whenever `i` comes up -/
def runSched (step : Nat → Step G L) : List Nat → G → (Nat → L) → G × (Nat → L)
  | [], g, ls => (g, ls)
  | i :: rest, g, ls =>
    let (g', l') := step i g (ls i)
    runSched step rest g' (fun j => if j = i then l' else ls j)

/-- VM `i` running alone for `n` steps from global state `g` -/
def runAlone (step : Step G L) : Nat → G → L → G × L
  | 0, g, l => (g, l)
  | n+1, g, l => let (g', l') := step g l; runAlone step n g' l'

/-- the language example: the global is the language last set; a VM's Parse step first WRITES its own
    language to the global (step kind 0) and later READS the global to render its error (step kind 1).
    Local state: (own language, phase, rendered-in language or 99 if not rendered yet) -/
def langStep (own : Nat) : Step Nat (Nat × Nat) := fun g l =>
  if l.1 == 0 then (own, (1, l.2)) else (g, (2, g))

end DS.Conc
