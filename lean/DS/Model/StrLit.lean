/-
  String-literal sub-grammar (roll.peg: strPart1..4, strEscape, fstring) as direct recursive functions
  over characters.  `q` is the delimiter: ' " ` or U+001E; the last two are template styles in which `{`
  opens a hole.
-/
namespace DS.StrLit

def isTemplate (q : Char) : Bool := q == '`' || q == '\x1e'

/-- strEscape: what a backslash followed by `c` denotes, if it is one of the documented escapes -/
def escapeOf (c : Char) : Option Char :=
  if c == 'n' then some '\n' else if c == 'r' then some '\r' else if c == 'f' then some '\x0c'
  else if c == 't' then some '\t' else if c == '\\' then some '\\' else if c == '\'' then some '\''
  else if c == '"' then some '"' else if c == '{' then some '{' else if c == '}' then some '}'
  else none

inductive Scan where
  | closed (value : List Char) (rest : List Char)     -- closing delimiter found; rest follows it
  | hole (value : List Char) (rest : List Char)        -- template: an unescaped `{` starts a hole here
  | unterminated
  deriving Repr, DecidableEq

/-- scan the text after the opening delimiter -/
def scan (q : Char) : List Char → List Char → Scan
  | [], _ => .unterminated
  | [c], acc =>
    if c == q then .closed acc.reverse []
    else if c == '\\' then .unterminated    -- lone backslash, then end of input: no closing delimiter
    else if isTemplate q && c == '{' then .hole acc.reverse []
    else .unterminated
  | c :: d :: ds, acc =>
    if c == q then .closed acc.reverse (d :: ds)
    else if c == '\\' then
      match escapeOf d with
      | some e => scan q ds (e :: acc)
      | none => scan q (d :: ds) ('\\' :: acc)   -- lone backslash stands for itself; `d` is scanned again
    else if isTemplate q && c == '{' then .hole acc.reverse (d :: ds)
    else scan q (d :: ds) (c :: acc)

/-- the documented way to write a character inside a literal with delimiter `q` -/
def escapeChar (q : Char) (c : Char) : List Char :=
  if c == '\\' then ['\\', '\\']
  else if c == q then ['\\', c]          -- only an escape for ' and " (see `delimFree`)
  else if c == '\n' then ['\\', 'n'] else if c == '\r' then ['\\', 'r']
  else if c == '\t' then ['\\', 't'] else if c == '\x0c' then ['\\', 'f']
  else if isTemplate q && (c == '{' || c == '}') then ['\\', c]
  else [c]

def escape (q : Char) (s : List Char) : List Char := s.flatMap (escapeChar q)

/-- the literal program text -/
def literal (q : Char) (s : List Char) : List Char := q :: (escape q s ++ [q])

/-- texts that have a literal in a template style: they must not contain the delimiter itself -/
def delimFree (q : Char) (s : List Char) : Bool := !isTemplate q || !s.contains q

end DS.StrLit
