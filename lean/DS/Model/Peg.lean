/-
  Model of the generated PEG engine of roll.peg.go (parseExprWrap and the parse* functions), interpreting the regenerated
  grammar (DS/Gen/Grammar.lean) and action summaries (DS/Gen/Actions.lean):
    * ordered choice, sequences that restore only the text position on failure,
    * look-ahead predicates that run their operand in skip-code mode (actions are not executed, code predicates are),
    * packrat memoisation per (offset, grammar node) with separate tables for the two modes: a memo hit replays the
      result WITHOUT re-running actions,
    * the part of ParserData the matching depends on (Config flags incl. the flags stack of `est`, loopLayer, errors)
      and the trace of opcodes the actions write, in the order they are written (abandoned alternatives included).
-/
import Std.Data.HashMap
import DS.Model.PegTypes
import DS.Model.ErrFmt

namespace DS.Peg

structure Flags where
  wod : Bool := false
  coc : Bool := false
  fate : Bool := false
  dc : Bool := false
  disableStmts : Bool := false
  disableNDice : Bool := false
  disableBitwise : Bool := false
  deriving DecidableEq, Repr, Inhabited

def FlagId.ofName (name : String) : Option FlagId :=
  if name == "EnableDiceWoD" then some .wod else if name == "EnableDiceCoC" then some .coc
  else if name == "EnableDiceFate" then some .fate else if name == "EnableDiceDoubleCross" then some .dc
  else if name == "DisableStmts" then some .stmts else if name == "DisableNDice" then some .ndice
  else if name == "DisableBitwiseOp" then some .bitwise else none

def Flags.get (f : Flags) : FlagId → Bool
  | .wod => f.wod | .coc => f.coc | .fate => f.fate | .dc => f.dc
  | .stmts => f.disableStmts | .ndice => f.disableNDice | .bitwise => f.disableBitwise

def Flags.set (f : Flags) (id : FlagId) (v : Bool) : Flags :=
  match id with
  | .wod => { f with wod := v } | .coc => { f with coc := v } | .fate => { f with fate := v } | .dc => { f with dc := v }
  | .stmts => { f with disableStmts := v } | .ndice => { f with disableNDice := v } | .bitwise => { f with disableBitwise := v }

/-! ### the engine -/

structure Env where
  input : Array Nat
  rules : Array PExpr
  acts : Array Act
  nodeCount : Nat
  tables : Array (Array (Nat × Nat × Nat))
  bpush : Nat
  bpop : Nat
  fpush : Nat := 0          -- typeFStringBlockPush / Pop: template statement blocks are unwound by break / continue too
  fpop : Nat := 0
  jmp : Nat
  maxCnt : Nat := 0     -- ParseExprLimit (0 = the generated default, effectively unlimited here)
  custom : Nat → Nat := fun _ => 0   -- registered custom dice parsers: length of the match starting at an offset (0 = no match)
  customOp : Nat := 0                -- typeCustomDice

structure PState where
  pos : Nat := 0
  cfg : Flags := {}
  flagsStack : List Flags := []
  loopLayer : Nat := 0
  opens : List Bool := []     -- open statement blocks (true) and template statement blocks (false), innermost first
  loopInfo : List Int := []
  codeStack : List Nat := []      -- loopLayer saved by CodePush
  errs : Bool := false
  trace : List Nat := []          -- reversed
  labels : List (String × Nat × Nat) := []
  skip : Nat := 0                 -- number of enclosing look-ahead predicates
  memo1 : Std.HashMap (Nat × Nat) (Bool × Nat × Flags) := {}   -- result, end offset, the parse flags it was obtained under
  memo2 : Std.HashMap (Nat × Nat) (Bool × Nat × Flags) := {}
  cnt : Nat := 0
  switched : Bool := false        -- ghost: a flagsSwitch macro action has run
  pending : Option (Nat × Nat) := none   -- pendingCustomDice: (start offset, byte length)
  leaks : List Nat := []          -- ghost: ids of sequences that failed after code had been written inside them (emit-then-fail)
  broken : Option String := none  -- the model met something it does not understand
  fuelOut : Bool := false

def decodeAt (env : Env) (pos : Nat) : Nat × Nat :=
  DS.ErrFmt.decodeRune ((env.input.extract pos (pos + 4)).toList)

/-- p.read(): step over the current rune; reading an invalid byte records the "invalid encoding" error -/
def advance (env : Env) (s : PState) : PState :=
  let (_, w) := decodeAt env s.pos
  let s := { s with pos := s.pos + w }
  let (rn, w2) := decodeAt env s.pos
  if rn == DS.ErrFmt.runeError && w2 == 1 then { s with errs := true } else s

/-- `for p.pt.offset < target { p.read() }` -/
def advanceTo (env : Env) (target : Nat) : Nat → PState → PState
  | 0, s => s
  | fuel+1, s => if s.pos < target then advanceTo env target fuel (advance env s) else s

def inTable (t : Array (Nat × Nat × Nat)) (r : Nat) : Bool :=
  t.any (fun (lo, hi, stride) => lo ≤ r && r ≤ hi && (stride ≤ 1 || (r - lo) % stride == 0))

def toLowerAscii (r : Nat) : Nat := if 65 ≤ r && r ≤ 90 then r + 32 else r

def sliceText (env : Env) (a b : Nat) : String :=
  match String.fromUTF8? (ByteArray.mk ((env.input.extract a b).map (fun n => UInt8.ofNat n))) with
  | some s => s
  | none => ""

/-- PrepareCustomDice: remembers the match; inside a look-ahead (where the consuming action does not run) it also steps over it -/
def prepareCustom (env : Env) (s : PState) : PState × Bool :=
  let len := env.custom s.pos
  if len == 0 then ({ s with pending := none }, false)
  else
    let s := { s with pending := some (s.pos, len) }
    (if s.skip > 0 then advanceTo env (s.pos + len) (len + 1) s else s, true)

/-- ConsumeCustomDice: ensurePendingCustomDice (the pending match if it starts here, else a fresh attempt), then step over it -/
def consumeCustom (env : Env) (s : PState) : PState :=
  let m : Option (Nat × Nat) := match s.pending with
    | some (st, len) => if st == s.pos then some (st, len) else (if env.custom s.pos == 0 then none else some (s.pos, env.custom s.pos))
    | none => if env.custom s.pos == 0 then none else some (s.pos, env.custom s.pos)
  match m with
  | none => { s with pending := none }
  | some (st, len) => advanceTo env (st + len) (len + 1) { s with pending := some (st, len) }

/-- CommitCustomDice: write typeCustomDice for the pending match -/
def commitCustom (env : Env) (s : PState) : PState :=
  match s.pending with
  | none => s
  | some _ => { s with pending := none, trace := env.customOp :: s.trace }

def runEff (env : Env) (s : PState) (e : Eff) : PState :=
  match e with
  | .emit op =>
    let os := if op == env.bpush then true :: s.opens else if op == env.fpush then false :: s.opens
              else if op == env.bpop || op == env.fpop then s.opens.tail else s.opens
    { s with trace := op :: s.trace, opens := os }
  | .loopBegin => { s with loopLayer := s.loopLayer + 1, loopInfo := (s.opens.length : Int) :: s.loopInfo }
  | .loopEnd => { s with loopLayer := s.loopLayer - 1, loopInfo := s.loopInfo.tail }
  | .codePush => { s with codeStack := s.loopLayer :: s.codeStack, loopLayer := 0 }
  | .codePop => (match s.codeStack with | l :: r => { s with loopLayer := l, codeStack := r } | [] => { s with broken := some "CodePop on empty stack" })
  | .breakCont =>
    if s.loopLayer == 0 then { s with errs := true }
    else
      let d := ((s.opens.length : Int) - s.loopInfo.headD 0).toNat
      -- the unwinding pops (innermost first, each of its own kind) are written with WriteCode directly: `opens` is not adjusted
      { s with trace := env.jmp :: ((((s.opens.take d).map fun b => if b then env.bpop else env.fpop).reverse) ++ s.trace) }
  | .flagsPush => { s with flagsStack := s.cfg :: s.flagsStack }
  | .flagsPop => (match s.flagsStack with | f :: r => { s with cfg := f, flagsStack := r } | [] => { s with broken := some "FlagsPop on empty stack" })
  | .setFlag f v => { s with cfg := s.cfg.set f v }
  | .flagsSwitch =>
    let get (l : String) : String := match s.labels.find? (·.1 == l) with | some (_, a, b) => sliceText env a b | none => ""
    let onVal := get "on" == "true"
    let id := get "id"
    let cfg' : Flags :=
      if id == "wod" then { s.cfg with wod := onVal } else if id == "coc" then { s.cfg with coc := onVal }
      else if id == "fate" then { s.cfg with fate := onVal } else if id == "doublecross" then { s.cfg with dc := onVal }
      else s.cfg
    { s with switched := true, cfg := cfg' }
  | .addErr => { s with errs := true }
  | .consumeCustom => consumeCustom env s
  | .commitCustom => commitCustom env s
  | .unknown w => { s with broken := some w }

def runAct (env : Env) (s : PState) (a : Nat) : PState := ((env.acts[a]!).effs).foldl (runEff env) s

/-- `lineBreakBefore`: walking back from the offset over blanks, a line feed is met before any other byte -/
def lineBreakBefore (env : Env) : Nat → Bool
  | 0 => false
  | i+1 =>
    let b := env.input[i]!
    if b == 10 then true else if b == 32 || b == 9 || b == 13 then lineBreakBefore env i else false

def evalPred (env : Env) (s : PState) (a : Nat) : PState × Bool :=
  let act := env.acts[a]!
  -- a predicate's side effects (addErr) happen in both modes
  let s := act.effs.foldl (runEff env) s
  match act.pred with
  | .flag f neg => (s, if neg then !(s.cfg.get f) else s.cfg.get f)
  | .const v => (s, v)
  | .customDice => prepareCustom env s
  | .lineBreakBefore => (s, lineBreakBefore env s.pos)
  | .none => ({ s with broken := some "code predicate without a boolean result" }, false)
  | .unknown w => ({ s with broken := some ("predicate " ++ w) }, false)


/-- the current rune as the matchers see it -/
def curRune (env : Env) (ic : Bool) (pos : Nat) : Nat :=
  let rn := (decodeAt env pos).1
  if ic then toLowerAscii rn else rn

def matchLit (env : Env) (ic : Bool) (p0 : Nat) : List Nat → PState → PState × Bool
  | [], s => (s, true)
  | want :: r, s =>
    if curRune env ic s.pos != want then ({ s with pos := p0 }, false) else matchLit env ic p0 r (advance env s)

def nodeId : PExpr → Nat
  | .seq i _ | .choice i _ | .action i _ _ | .code i _ _ | .andCode i _ | .and_ i _ | .andLogical i _ | .not_ i _ | .any i
  | .lit i _ _ | .cls i _ _ _ _ _ | .star i _ | .plus i _ | .opt i _ | .labeled i _ _ _ | .ref i _ => i

/-- memo lookup: the entry for (offset, node), if it was stored under the same parse flags -/
def memoGet (m : Std.HashMap (Nat × Nat) (Bool × Nat × Flags)) (key : Nat × Nat) (cfg : Flags) : Option (Bool × Nat) :=
  match m[key]? with
  | some (b, endPos, fl) => if fl = cfg then some (b, endPos) else none
  | none => none

mutual

/-- parseExprWrap: counter, memo lookup, dispatch, memo store -/
def parseExpr (env : Env) : Nat → PExpr → PState → PState × Bool
  | 0, _, s => ({ s with fuelOut := true }, false)
  | fuel+1, e, s =>
    let s := { s with cnt := s.cnt + 1 }
    -- ParseExprLimit: the generated engine panics (Parse turns it into an error); nothing further is parsed
    if env.maxCnt > 0 && s.cnt > env.maxCnt then ({ s with errs := true }, false) else
    let key := (s.pos, nodeId e)
    -- a stored result counts only under the parse flags it was obtained under (`m.flags == parseFlagsKey()`)
    let hit := memoGet (if s.skip > 0 then s.memo2 else s.memo1) key s.cfg
    match hit with
    | some (b, endPos) => ({ s with pos := endPos }, b)
    | none =>
      let (s', ok) := parseNode env fuel e s
      let s' := if s'.skip > 0 then { s' with memo2 := s'.memo2.insert key (ok, s'.pos, s'.cfg) } else { s' with memo1 := s'.memo1.insert key (ok, s'.pos, s'.cfg) }
      (s', ok)

def parseNode (env : Env) : Nat → PExpr → PState → PState × Bool
  | 0, _, s => ({ s with fuelOut := true }, false)
  | fuel+1, e, s =>
    match e with
    | .seq i es =>
      let r := parseSeq env fuel es s s.pos
      -- ghost journal: the sequence failed although code was written inside it (only the text position was restored)
      if !r.2 && r.1.skip == 0 && r.1.trace.length > s.trace.length && r.1.leaks.length == s.leaks.length then ({ r.1 with leaks := i :: r.1.leaks }, false) else r
    | .choice _ es => parseChoice env fuel es s
    | .action _ a e' =>
      if s.skip > 0 then parseExpr env fuel e' s
      else
        let (s', ok) := parseExpr env fuel e' s
        if ok then (runAct env s' a, true) else (s', false)
    | .code _ a notSkip => if !notSkip && s.skip > 0 then (s, true) else (runAct env s a, true)
    | .andCode _ a => evalPred env s a
    | .and_ _ e' =>
      let p0 := s.pos
      let (s', ok) := parseExpr env fuel e' { s with skip := s.skip + 1 }
      ({ s' with skip := s'.skip - 1, pos := p0 }, ok)
    | .andLogical _ e' =>
      let p0 := s.pos
      let (s', ok) := parseExpr env fuel e' { s with skip := s.skip + 1 }
      let moved := s'.pos != p0
      ({ s' with skip := s'.skip - 1, pos := p0 }, ok && moved)
    | .not_ _ e' =>
      let p0 := s.pos
      let (s', ok) := parseExpr env fuel e' { s with skip := s.skip + 1 }
      ({ s' with skip := s'.skip - 1, pos := p0 }, !ok)
    | .any _ =>
      let (rn, w) := decodeAt env s.pos
      if rn == DS.ErrFmt.runeError && w == 0 then (s, false) else (advance env s, true)
    | .lit _ runes ic => matchLit env ic s.pos runes s
    | .cls _ chars ranges classes inverted ic =>
      let (rn, w) := decodeAt env s.pos
      if rn == DS.ErrFmt.runeError && w == 0 then (s, false) else
      let cur := curRune env ic s.pos
      let hit := chars.contains cur || ranges.any (fun (lo, hi) => lo ≤ cur && cur ≤ hi) || classes.any (fun c => inTable (env.tables[c]!) cur)
      if hit != inverted then (advance env s, true) else (s, false)
    | .star _ e' => parseStar env fuel e' s
    | .plus _ e' =>
      let (s', ok) := parseExpr env fuel e' s
      if ok then parseStar env fuel e' s' else (s', false)
    | .opt _ e' => let (s', _) := parseExpr env fuel e' s; (s', true)
    | .labeled _ label _ e' =>
      let p0 := s.pos
      let (s', ok) := parseExpr env fuel e' s
      if ok && label != "" && s'.skip == 0 then ({ s' with labels := (label, p0, s'.pos) :: s'.labels }, true) else (s', ok)
    | .ref _ idx =>
      -- parseRuleWrap: a fresh variable frame for the rule
      let saved := s.labels
      let (s', ok) := parseExpr env fuel (env.rules[idx]!) { s with labels := [] }
      ({ s' with labels := saved }, ok)

def parseSeq (env : Env) : Nat → List PExpr → PState → Nat → PState × Bool
  | 0, _, s, _ => ({ s with fuelOut := true }, false)
  | _, [], s, _ => (s, true)
  | fuel+1, e :: r, s, p0 =>
    let (s', ok) := parseExpr env fuel e s
    if ok then parseSeq env fuel r s' p0
    else ({ s' with pos := p0 }, false)       -- only the text position is restored

def parseChoice (env : Env) : Nat → List PExpr → PState → PState × Bool
  | 0, _, s => ({ s with fuelOut := true }, false)
  | _, [], s => (s, false)
  | fuel+1, e :: r, s =>
    let (s', ok) := parseExpr env fuel e s
    if ok then (s', true) else parseChoice env fuel r s'

def parseStar (env : Env) : Nat → PExpr → PState → PState × Bool
  | 0, _, s => ({ s with fuelOut := true }, false)
  | fuel+1, e, s =>
    let (s', ok) := parseExpr env fuel e s
    if ok then parseStar env fuel e s' else (s', true)

end

/-- p.parse: read the first rune, run rule 0; the parse fails when the rule fails or any error was recorded -/
def parseTop (env : Env) (cfg : Flags) (fuel : Nat) : PState × Bool :=
  let s0 : PState := { cfg := cfg }
  let (rn, w) := decodeAt env 0
  let s0 := if rn == DS.ErrFmt.runeError && w == 1 then { s0 with errs := true } else s0
  let (s, ok) := parseExpr env fuel (env.rules[0]!) s0
  (s, ok && !s.errs)

end DS.Peg
