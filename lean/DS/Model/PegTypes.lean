/-
  The PEG as data (shape of the regenerated DS/Gen/Grammar.lean) and what an action body does (DS/Gen/Actions.lean).
-/
namespace DS.Peg

inductive PExpr where
  | seq (id : Nat) (es : List PExpr)
  | choice (id : Nat) (es : List PExpr)
  | action (id : Nat) (act : Nat) (e : PExpr)
  | code (id : Nat) (act : Nat) (notSkip : Bool)
  | andCode (id : Nat) (act : Nat)
  | and_ (id : Nat) (e : PExpr)
  | andLogical (id : Nat) (e : PExpr)
  | not_ (id : Nat) (e : PExpr)
  | any (id : Nat)
  | lit (id : Nat) (runes : List Nat) (ignoreCase : Bool)
  | cls (id : Nat) (chars : List Nat) (ranges : List (Nat × Nat)) (classes : List Nat) (inverted ignoreCase : Bool)
  | star (id : Nat) (e : PExpr)
  | plus (id : Nat) (e : PExpr)
  | opt (id : Nat) (e : PExpr)
  | labeled (id : Nat) (label : String) (textCapture : Bool) (e : PExpr)
  | ref (id : Nat) (idx : Nat)
  deriving Inhabited, Repr

structure ActInfo where
  name : String
  calls : List String      -- "Method(arg␟arg)" with args tagged s: string literal, l: other literal, i: identifier, e: expression
  assigns : List String    -- "ConfigField=expr"
  addErr : Bool
  checksLoop : Bool
  ret : String
  deriving Inhabited, Repr

structure MethodInfo where
  name : String
  ops : List String        -- opcode identifiers written, or "@Method" for a call of another ParserData method
  cond : Bool
  deriving Inhabited, Repr

inductive FlagId where
  | wod | coc | fate | dc | stmts | ndice | bitwise
  deriving DecidableEq, Repr, Inhabited

/-- effects of an action, in execution order -/
inductive Eff where
  | emit (op : Nat)
  | loopBegin | loopEnd
  | codePush | codePop               -- CodePush / CodePop: a stored body does not see the loops around its definition
  | breakCont                       -- BreakPush / ContinuePush guarded by `loopLayer == 0 → addErr`
  | flagsPush | flagsPop
  | setFlag (f : FlagId) (v : Bool)
  | flagsSwitch
  | addErr
  | consumeCustom                   -- ConsumeCustomDice: step over the pending custom-dice match
  | commitCustom                    -- CommitCustomDice: write typeCustomDice for the pending match
  | unknown (what : String)         -- something the translator does not understand: the tie is broken
  deriving Repr, Inhabited

inductive Pred where
  | none                            -- not a predicate
  | flag (f : FlagId) (negated : Bool)
  | const (v : Bool)
  | customDice
  | lineBreakBefore                 -- `lineBreakBefore(p.data, p.pt.offset)`: the blanks just before the offset contain a line feed
  | unknown (what : String)
  deriving Repr, Inhabited

structure Act where
  effs : List Eff
  pred : Pred
  deriving Repr, Inhabited

end DS.Peg
